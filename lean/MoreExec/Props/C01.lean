/-
  C01 — Composed executors deliver each callable's own outcome, exactly once.
  Theorems about the reference semantics `Stack.eval` ("sequential evaluation of the same layers"), by induction over the
  layer list: they hold for stacks of ANY depth and order.  That real stacks resolve with `eval`'s outcome and invocation
  count is the differential check (real stacks under a deterministic scheduler vs this function evaluated in Lean).
-/
import MoreExec.Model.Stack
import MoreExec.Props.C05

namespace MoreExec.Stack
open MoreExec.Gen

/-- what holds of every evaluation that starts with k callable invocations already made -/
structure Good (script : List (Option Int × Nat)) (layers : List Layer) (k : Nat) (r : Outcome × Nat) : Prop where
  ran : k < r.2
  own : ∀ a c, r.1 = .err (.callable a c) → k ≤ a ∧ a < r.2 ∧ scriptAt script a = .err (.callable a c)
  legit : ∀ t, r.1 = .err t → Legit layers t

theorem good_weaken {script layers k k' r} (h : Good script layers k' r) (hk : k ≤ k') : Good script layers k r :=
  ⟨Nat.lt_of_le_of_lt hk h.ran, fun a c e => let ⟨a1, a2, a3⟩ := h.own a c e; ⟨Nat.le_trans hk a1, a2, a3⟩, h.legit⟩

theorem retryLoop_good (script : List (Option Int × Nat)) (layers : List Layer) (pol : Policy) (inner : Nat → Outcome × Nat)
    (hin : ∀ k, Good script layers k (inner k)) : ∀ fuel attempt k, Good script layers k (retryLoop pol inner fuel attempt k) := by
  intro fuel
  induction fuel with
  | zero => intro attempt k; exact hin k
  | succ n ih =>
    intro attempt k
    simp only [retryLoop]
    split
    · exact good_weaken (ih (attempt + 1) (inner k).2) (Nat.le_of_lt (hin k).ran)
    · exact hin k

theorem legit_mono {l : Layer} {rest : List Layer} {t : Tag} (h : Legit rest t) : Legit (l :: rest) t := by
  cases t with
  | callable a c => trivial
  | mapfn li => obtain ⟨fn, ef, h⟩ := h; exact ⟨fn, ef, h.imp (List.mem_cons_of_mem _) (List.mem_cons_of_mem _)⟩
  | errfn li => obtain ⟨fn, ef, h⟩ := h; exact ⟨fn, ef, h.imp (List.mem_cons_of_mem _) (List.mem_cons_of_mem _)⟩
  | pollerr li => obtain ⟨pf, h⟩ := h; exact ⟨pf, List.mem_cons_of_mem _ h⟩

theorem good_cons {script rest k r} (l : Layer) (h : Good script rest k r) : Good script (l :: rest) k r :=
  ⟨h.ran, h.own, fun t e => legit_mono (h.legit t e)⟩

theorem eval_good (script : List (Option Int × Nat)) (layers : List Layer) : ∀ k, Good script layers k (eval script layers k) := by
  induction layers with
  | nil =>
    intro k
    refine ⟨by simp [eval], ?_, ?_⟩
    · intro a c e
      simp only [eval] at e
      have : scriptAt script k = .err (.callable a c) := e
      have hk : a = k := by
        unfold scriptAt at this
        split at this <;> first | (cases this; rfl) | cases this
      subst hk
      exact ⟨Nat.le_refl _, by simp [eval], this⟩
    · intro t e
      simp only [eval] at e
      unfold scriptAt at e
      split at e <;> first | (cases e; trivial) | cases e
  | cons l rest ih =>
    intro k
    cases l with
    | map li fn ef =>
      have h := ih k
      refine ⟨h.ran, ?_, ?_⟩
      · intro a c e
        simp only [eval] at e
        cases hr : (eval script rest k).1 with
        | ok v => rw [hr] at e; cases fn <;> simp [applyMap] at e
        | err t =>
          rw [hr] at e
          cases ef <;> simp only [applyMap] at e
          · cases e; exact h.own a c hr
          · cases e; exact h.own a c hr
          · cases e
          · cases e
      · intro t e
        simp only [eval] at e
        cases hr : (eval script rest k).1 with
        | ok v =>
          rw [hr] at e
          cases fn <;> simp only [applyMap] at e
          · cases e
          · cases e; exact ⟨_, _, Or.inl List.mem_cons_self⟩
        | err t' =>
          rw [hr] at e
          cases ef <;> simp only [applyMap] at e
          · cases e; exact legit_mono (h.legit _ hr)
          · cases e; exact legit_mono (h.legit _ hr)
          · cases e
          · cases e; exact ⟨fn, _, Or.inl List.mem_cons_self⟩
    | flatMap li fn ef =>
      have h := ih k
      refine ⟨h.ran, ?_, ?_⟩
      · intro a c e
        simp only [eval] at e
        cases hr : (eval script rest k).1 with
        | ok v => rw [hr] at e; cases fn <;> simp [applyMap] at e
        | err t =>
          rw [hr] at e
          cases ef <;> simp only [applyMap] at e
          · cases e; exact h.own a c hr
          · cases e; exact h.own a c hr
          · cases e
          · cases e
      · intro t e
        simp only [eval] at e
        cases hr : (eval script rest k).1 with
        | ok v =>
          rw [hr] at e
          cases fn <;> simp only [applyMap] at e
          · cases e
          · cases e; exact ⟨_, _, Or.inr List.mem_cons_self⟩
        | err t' =>
          rw [hr] at e
          cases ef <;> simp only [applyMap] at e
          · cases e; exact legit_mono (h.legit _ hr)
          · cases e; exact legit_mono (h.legit _ hr)
          · cases e
          · cases e; exact ⟨fn, _, Or.inr List.mem_cons_self⟩
    | retry pol =>
      simp only [eval]
      exact good_cons _ (retryLoop_good script rest pol (eval script rest) ih 16 1 k)
    | poll li pf =>
      have h := ih k
      refine ⟨h.ran, ?_, ?_⟩
      · intro a c e
        simp only [eval] at e
        cases hr : (eval script rest k).1 with
        | ok v => rw [hr] at e; cases pf <;> simp at e
        | err t => rw [hr] at e; simp only at e; cases e; exact h.own a c hr
      · intro t e
        simp only [eval] at e
        cases hr : (eval script rest k).1 with
        | ok v =>
          rw [hr] at e
          cases pf <;> simp only at e
          · cases e
          · cases e; exact ⟨_, List.mem_cons_self⟩
        | err t' => rw [hr] at e; simp only at e; cases e; exact legit_mono (h.legit _ hr)
    | throttle => simp only [eval]; exact good_cons _ (ih k)
    | timeout => simp only [eval]; exact good_cons _ (ih k)
    | cancelOnShutdown => simp only [eval]; exact good_cons _ (ih k)

/-- (the callable's own exception, the very object) For every stack — any layers, any order, any depth — and every outcome
script: if the future resolves with an exception raised by the callable, it is the object raised by one of THIS
submission's own invocations (invocation a of this evaluation, and the script says that invocation raised exactly it);
any other exception it can resolve with was raised by a user function of one of the stack's own layers. -/
theorem C01_exception_is_own (script : List (Option Int × Nat)) (layers : List Layer) :
    (∀ a c, (eval script layers 0).1 = .err (.callable a c) →
        a < (eval script layers 0).2 ∧ scriptAt script a = .err (.callable a c)) ∧
    (∀ t, (eval script layers 0).1 = .err t → Legit layers t) := by
  have h := eval_good script layers 0
  exact ⟨fun a c e => let ⟨_, a2, a3⟩ := h.own a c e; ⟨a2, a3⟩, h.legit⟩

/-- (invoked at least once; exactly once without a retry layer) -/
def noRetry : List Layer → Bool
  | [] => true
  | .retry _ :: _ => false
  | _ :: rest => noRetry rest

theorem C01_invoked (script : List (Option Int × Nat)) (layers : List Layer) : 0 < (eval script layers 0).2 :=
  (eval_good script layers 0).ran

theorem C01_exactly_once_without_retry (script : List (Option Int × Nat)) (layers : List Layer) (h : noRetry layers = true) (k : Nat) :
    (eval script layers k).2 = k + 1 := by
  induction layers with
  | nil => simp [eval]
  | cons l rest ih =>
    cases l <;> simp only [noRetry] at h <;> first | (simp only [eval]; exact ih h) | cases h

/-- (throttle, timeout and cancel-on-shutdown layers are transparent) -/
theorem C01_transparent_layers (script : List (Option Int × Nat)) (rest : List Layer) (k : Nat) :
    eval script (.throttle :: rest) k = eval script rest k ∧ eval script (.timeout :: rest) k = eval script rest k ∧
    eval script (.cancelOnShutdown :: rest) k = eval script rest k := ⟨rfl, rfl, rfl⟩

/-- (a retry layer delivers the outcome of the attempt after which its policy declined) -/
theorem C01_retry_delivers_declined_attempt (pol : Policy) (inner : Nat → Outcome × Nat) (fuel attempt k : Nat)
    (h : wantsRetry pol attempt (inner k).1 = false) : retryLoop pol inner (fuel + 1) attempt k = inner k := by
  simp [retryLoop, h]

theorem C01_retry_continues (pol : Policy) (inner : Nat → Outcome × Nat) (fuel attempt k : Nat)
    (h : wantsRetry pol attempt (inner k).1 = true) :
    retryLoop pol inner (fuel + 1) attempt k = retryLoop pol inner fuel (attempt + 1) (inner k).2 := by
  simp [retryLoop, h]

/-! Non-vacuity: retry(max 3, base E0) over map(identity) over the base; the callable raises E0 twice, then returns 5. -/
def demoScript : List (Option Int × Nat) := [(none, 0), (none, 0), (some 5, 0)]
def demoStack : List Layer := [.throttle, .retry (.exc ⟨3, 2, 1, 120, [0]⟩), .map 0 .ident .none, .timeout]
example : eval demoScript demoStack 0 = (.ok (.int 5), 3) := by decide
example : eval [(none, 0)] demoStack 0 = (.err (.callable 2 0), 3) := by decide

end MoreExec.Stack
