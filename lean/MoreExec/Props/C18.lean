/-
  C18 — Faults in user code stay with their own future; worker threads survive.

  In the component models every call into user code is an action whose outcome is chosen by the environment, including
  "it raised"; none of the models has a transition into a dead-worker or escaped-exception state, so what has to be
  shown is (i) that the raising branches are handled the way the property demands — the theorems below, each about the
  model whose step function real executions are replayed through — and (ii) that the source really has a guard at every
  call site (K11, regenerated from the current tree and decided).
-/
import MoreExec.Gen.K11
import MoreExec.Props.C02
import MoreExec.Props.C05
import MoreExec.Props.C07
import MoreExec.Props.C08
import MoreExec.Props.C13

namespace MoreExec.Faults
open MoreExec.Gen

/-- (source) every call into user code — retry policy methods, poll and cancel functions, the throttle count callable,
map and error functions, done-callbacks, the callable run by SyncExecutor — is inside a `try` that catches Exception;
the setters used on futures the user may have cancelled absorb InvalidStateError; the loop wrapper swallows nothing but
the interpreter-shutdown error. -/
theorem C18_every_site_guarded : K11.allFaultSitesGuarded = true := by decide

/-- (retry policy raises) the fault changes nothing but the decision for ITS attempt: the job list, every future's
state and every other pending decision are untouched, and the decision is "finalise with the callable's own outcome". -/
theorem C18_policy_fault_is_local (s s' : Retry.St) (d : Nat) (h : Retry.step s (.cbPolicy d (some .raised)) = some s') :
    s'.jobs = s.jobs ∧ s'.done = s.done ∧ s'.delDone = s.delDone ∧ s'.decs = s.decs ++ [(d, .final)] := by
  simp only [Retry.step] at h
  split at h
  · split at h
    · cases h; exact ⟨rfl, rfl, rfl, rfl⟩
    · cases h
  · cases h

/-- (poll function raises) the poll thread goes on to its wait (it does not die), having yielded the exception to the
futures it was shown and to nothing else: a future outside the snapshot keeps its state through the whole failing pass. -/
theorem C18_poll_fault_spares_others (s s' : Poll.St) (h : Poll.step s .failNext = some s') (g : Nat)
    (hg : ∀ rest e, s.wpc = .failing rest e → g ∉ rest) : Poll.isDone s' g = Poll.isDone s g := by
  simp only [Poll.step] at h
  split at h
  · rename_i f rest e hw
    cases h
    have hne : g ≠ f := fun e' => hg _ _ hw (e' ▸ List.mem_cons_self)
    have hfg : (f == g) = false := by simpa using fun e' => hne e'.symm
    simp only [Poll.isDone, Poll.resolve]
    by_cases hd : (s.done.any fun p => p.fst == f) = true
    · simp [hd]
    · simp [hd, hfg]
  · cases h; rfl
  · cases h

theorem C18_poll_thread_survives (s s' : Poll.St) (e : Nat) (h : Poll.step s (.pollRaise e) = some s') :
    ∃ rest, s'.wpc = .failing rest e := by
  simp only [Poll.step] at h
  split at h
  · cases h; exact ⟨_, rfl⟩
  · cases h

/-- (count callable raises) the hand-over thread continues with the last value -/
theorem C18_count_fault (s s' : Throttle.St) (h : Throttle.step s (.evalW none) = some s') :
    s'.last = s.last ∧ s'.queue = s.queue ∧ s'.running = s.running ∧ s'.wpc = .read := by
  simp only [Throttle.step] at h
  split at h
  · cases h; exact ⟨rfl, rfl, rfl, rfl⟩
  · cases h

/-- (map / error function raises) the output fails with exactly the raised exception and no other call is made -/
theorem C18_map_fn_fault (flat : Bool) (f : MapFut.Val → MapFut.FnRes) (v : MapFut.Val) (e : MapFut.Exc) (h : f v = .raiseNew e)
    (ef : Option (MapFut.Exc → MapFut.FnRes)) :
    (MapFut.resolve ⟨flat, some f, ef⟩ (.ok v)).out = .err e := by
  simp [MapFut.resolve, MapFut.onMapped, h]

/-- (done-callback raises) callbacks are invoked one after another regardless of what the previous one did: the model's
`invokeNext` has no failing branch, which is what `_me_invoke_callbacks`'s per-callback `try/except` provides (K11) -/
theorem C18_callback_fault (s : MeFuture.St) (t c : Nat) (rest : List Nat) (h : s.owed = some (t, c :: rest)) :
    ∃ s', MeFuture.step s (.invokeNext t) = some s' ∧ s'.owed = some (t, rest) := by
  simp [MeFuture.step, h]

end MoreExec.Faults
