/-
  C03 — No future is lost: once its underlying work is finished, the future finishes; no lost wake-up; progress never
  waits for an unrelated fall-back timer.
  Here: the generic wake-up protocol theorem and the "no future silently dropped" invariant of the retry executor.  The
  per-executor instances of the sleep invariant are C07_no_idle_capacity (throttle), C08_prompt (poll), the sleep
  invariant of C09 (timeout) and C11_worker_not_stuck (shutdown); synchronous resolution of derived futures, including
  the cancelled-delegate case, is C13 (map / flat_map and everything built on MapFuture), C14, C15.
-/
import MoreExec.Model.WakeProto
import MoreExec.Proofs.Retry.Timing
import MoreExec.Proofs.Retry.Lost
import MoreExec.Props.C07
import MoreExec.Props.C08
import MoreExec.Props.C09
import MoreExec.Props.C11
import MoreExec.Props.C13

namespace MoreExec.WakeProto

theorem minDue_le (l : List (Nat × Nat)) (m : Nat) (h : minDue l = some m) : ∀ p ∈ l, m ≤ p.2 := by
  induction l generalizing m with
  | nil => simp [minDue] at h
  | cons x rest ih =>
    obtain ⟨i, d⟩ := x
    simp only [minDue] at h
    intro p hp
    cases hm : minDue rest with
    | none =>
      simp only [hm] at h; cases h
      cases hp with
      | head => exact Nat.le_refl _
      | tail _ hp' =>
        cases rest with
        | nil => cases hp'
        | cons y r => obtain ⟨j, e⟩ := y; simp only [minDue] at hm; split at hm <;> cases hm
    | some m' =>
      simp only [hm] at h; cases h
      cases hp with
      | head => exact Nat.min_le_left _ _
      | tail _ hp' => exact Nat.le_trans (Nat.min_le_right _ _) (ih m' hm p hp')

theorem minDue_none (l : List (Nat × Nat)) (h : minDue l = none) : l = [] := by
  cases l with
  | nil => rfl
  | cons x rest => obtain ⟨i, d⟩ := x; simp only [minDue] at h; split at h <;> cases h

/-- the wake-up time computed by the last scan covers every item, unless a producer is on its way to set the event -/
def Covered (w : Option Nat) (items : List (Nat × Nat)) : Prop :=
  match w with
  | none => items = []
  | some t => ∀ p ∈ items, t ≤ p.2

structure Inv (s : St) : Prop where
  sleep : ∀ w, (s.wpc = .wait w ∨ s.wpc = .parked w) → s.flag = false → s.pendingSet = 0 → Covered w s.items

theorem inv_init : Inv init := by constructor; intro w h; simp [init] at h

theorem covered_filter (w : Option Nat) (items : List (Nat × Nat)) (i : Nat) (h : Covered w items) :
    Covered w (items.filter (fun p => p.1 != i)) := by
  cases w with
  | none => simp only [Covered] at h ⊢; subst h; rfl
  | some t => simp only [Covered] at h ⊢; intro p hp; exact h p (List.mem_filter.mp hp).1

theorem inv_step (s : St) (a : Act) (s' : St) (hi : Inv s) (h : step s a = some s') : Inv s' := by
  obtain ⟨h1⟩ := hi
  cases a with
  | add i d => simp only [step] at h; cases h; exact ⟨by intro w _ _ hp; simp at hp⟩
  | setE => simp only [step] at h; cases h; exact ⟨by intro w _ hf; simp at hf⟩
  | remove i =>
    simp only [step] at h; cases h
    exact ⟨fun w hw hf hp => covered_filter w _ i (h1 w hw hf hp)⟩
  | scan =>
    simp only [step] at h
    split at h
    · cases h
      refine ⟨?_⟩
      intro w hw _ _
      have : w = minDue s.items := by
        cases hw with
        | inl hw => cases hw; rfl
        | inr hw => cases hw
      subst this
      cases hm : minDue s.items with
      | none => exact minDue_none _ hm
      | some m => exact minDue_le _ m hm
    · cases h
  | waitE =>
    simp only [step] at h
    split at h
    · rename_i w hw
      cases h
      refine ⟨?_⟩
      intro w' hw' hf hp
      by_cases hfl : s.flag = true
      · simp only [hfl, ↓reduceIte] at hw'
        cases hw' with
        | inl hw' => cases hw'
        | inr hw' => cases hw'
      · have hfl' : s.flag = false := by simpa using hfl
        simp only [hfl', Bool.false_eq_true, ↓reduceIte] at hw'
        have : w' = w := by
          cases hw' with
          | inl hw' => cases hw'
          | inr hw' => cases hw'; rfl
        subst this
        exact h1 w' (Or.inl hw) hf hp
    · cases h
  | wake =>
    simp only [step] at h
    split at h
    · split at h
      · cases h; exact ⟨by intro w hw; cases hw with | inl hw => cases hw | inr hw => cases hw⟩
      · cases h
    · cases h
  | clearE =>
    simp only [step] at h
    split at h
    · cases h; exact ⟨by intro w hw; cases hw with | inl hw => cases hw | inr hw => cases hw⟩
    · cases h
  | tick t =>
    simp only [step] at h
    split at h
    · cases h; exact ⟨h1⟩
    · cases h

/-- (no lost wake-up) In every reachable state: if the worker is asleep on its event, the event is clear and no producer
is between its state change and its `event.set()`, then the wake-up time the worker computed covers ALL the work there
is: nothing is pending when it sleeps without time-out, and its time-out ends no later than the earliest due time.
Any state change after the scan either has set the event already or is about to. -/
theorem C03_sleep_invariant (as : List Act) (s : St) (hrun : run init as = some s) (w : Option Nat)
    (hp : s.wpc = .parked w) (hf : s.flag = false) (hz : s.pendingSet = 0) : Covered w s.items :=
  (invariant_run step Inv inv_step init inv_init as s hrun).sleep w (Or.inr hp) hf hz

/-- (no fall-back timer, completion no later than the configured delays imply) virtual time never advances past the due
time of any pending item while the worker sleeps with a clear event and no producer mid-way: an idle jump ends at or
before the earliest due time, where the worker wakes and handles it. -/
theorem C03_no_overshoot (as : List Act) (t : Nat) (bs : List Act) (s' : St)
    (hrun : run init (as ++ Act.tick t :: bs) = some s') :
    ∃ m m', run init as = some m ∧ step m (.tick t) = some m' ∧
      (m.flag = false → m.pendingSet = 0 → ∀ p ∈ m.items, t ≤ max p.2 m.now) := by
  refine (transition_property step Inv (fun m a _ => ∀ t, a = Act.tick t → m.flag = false → m.pendingSet = 0 →
      ∀ p ∈ m.items, t ≤ max p.2 m.now) inv_step ?_ init inv_init as (.tick t) bs s' hrun).imp
    fun m hm => hm.imp fun m' ⟨h1, h2, h3⟩ => ⟨h1, h2, h3 t rfl⟩
  intro m a m' hinv hstep t ht hf hz p hp
  subst ht
  simp only [step] at hstep
  split at hstep
  · rename_i hg
    obtain ⟨_, hg2⟩ := hg
    unfold tickOk at hg2
    split at hg2
    · rename_i w hw
      have hc := hinv.sleep (some w) (Or.inr hw) hf hz
      simp only [Covered] at hc
      have := hc p hp
      have hg3 : t ≤ max w m.now := by simpa using hg2
      omega
    · rename_i hw
      have hc := hinv.sleep none (Or.inr hw) hf hz
      simp only [Covered] at hc
      rw [hc] at hp; cases hp
    · cases hg2
  · cases hstep

/-! Non-vacuity -/
def demoRun : List Act := [.add 1 5, .setE, .scan, .waitE, .clearE, .scan, .waitE, .add 2 3, .setE, .wake, .clearE, .scan, .waitE, .tick 3]
example : ((run init demoRun).map (fun s => (s.now, s.wpc, s.flag))) = some (3, .parked (some 3), false) := by decide
/-- a jump beyond the earliest due time is not a run -/
example : (run init (demoRun.dropLast ++ [.tick 4])).isSome = false := by decide

end MoreExec.WakeProto

namespace MoreExec.Retry

/-- (retry: no future is lost) For EVERY run of the Retry model — any number of submissions, attempts, policy answers,
back-offs, `cancel()` calls from any number of threads landing at any point (queued, between retries, inside the hand-over window,
attempt running, being resolved), delegates cancelled by someone else at any moment (also while a `cancel()` of the retry future is
in progress) — every future handed out by `submit()` is, in the final state: terminal; or has its job in the job list; or is the
future the submit thread is handing over right now; or is the subject of a `cancel()` in progress that will end by making it
terminal (it popped the queued job, or its `delegate.cancel()` returned True, or the delegate has been cancelled meanwhile); or is
owed a `_me_delegate_cancelled()` call by the callback of its cancelled delegate (which makes it terminal as soon as that thread
gets the future's lock).  Nothing is ever silently dropped. -/
theorem C03_retry_no_lost_future (as : List Act) (s : St) (hrun : run init as = some s) :
    ∀ f ∈ s.submitted, Kept s f :=
  (invariant_run step LInv linv_step init linv_init as s hrun).kept

/-- at quiescence of the cancels, of the hand-over and of the delegate callbacks (no `cancel()` in progress, submit thread outside
`_submit_now`, no `_me_delegate_cancelled()` owed) every handed-out future is terminal or still has its job -/
theorem C03_retry_no_lost_future_quiescent (as : List Act) (s : St) (hrun : run init as = some s)
    (hc : s.cancelling = []) (hw : s.submitting = none) (hm : s.marks = []) :
    ∀ f ∈ s.submitted, f ∈ s.done ∨ ∃ j ∈ s.jobs, j.fut = f := by
  intro f hf
  rcases C03_retry_no_lost_future as s hrun f hf with h | h | ⟨nj, hnj, _⟩ | ⟨b, hb⟩ | h | ⟨d, b, hb, _⟩ | ⟨d, hd⟩
  · exact Or.inl h
  · exact Or.inr h
  · rw [hw] at hnj; cases hnj
  · rw [hc] at hb; cases hb
  · rw [hc] at h; cases h
  · rw [hc] at hb; cases hb
  · rw [hm] at hd; cases hd

/-- every owed `_me_delegate_cancelled()` can be paid as soon as nobody holds the future's lock, and paying it makes the future
terminal: a pending mark is not a way of staying pending for ever -/
theorem C03_mark_pays (s : St) (f d : Nat) (hm : (f, d) ∈ s.marks) (hf : holdsF s f = false) :
    ∃ s', step s (.cbMark f d false) = some s' ∧ f ∈ s'.done := by
  refine ⟨_, by simp only [step, hm, hf, ↓reduceIte]; rfl, ?_⟩
  simp only; split <;> simp_all

/-! Non-vacuity / the delicate interleaving: the client's cancel() finds the attempt running (`delegate.cancel()` = False); before
it has left `_cancel`, somebody else cancels the delegate and the delegate's callback pops the job; the callback's
`_me_delegate_cancelled()` cannot run while the cancel is in progress (it needs the future's lock) and, once it does, cancels. -/
def raceRun : List Act :=
  [.submit 0, .submitNow ⟨0, 0, 0, none, false, none⟩, .submitApp, .cancelScan 0, .cancelDel 0 false, .ddone 0 true, .cbCancelled 0]
example : ((run init raceRun).map (fun s => (s.done, s.jobs.length, s.marks, s.cancelling.length))) = some ([], 0, [(0, 0)], 1) := by decide
example : (run init (raceRun ++ [.cbMark 0 0 false])).isSome = false := by decide          -- must wait for the lock
example : ((run init (raceRun ++ [.cancelEnd 0, .cbMark 0 0 false])).map (fun s => (s.done, s.marks))) = some ([0], []) := by decide

end MoreExec.Retry

namespace MoreExec.MapFut

/-- (a delegate cancelled by someone else) the resolution procedure of MapFuture / FlatMapFuture — and of everything built
on them: f_map, f_flat_map, f_nocancel, f_proxy, timeout and throttle futures — maps a cancelled delegate to a cancelled
output, for every configuration of user functions: the dependent future ends cancelled rather than pending for ever. -/
theorem C03_cancelled_delegate_ends (c : Cfg) : (resolve c .cancelled).out = .cancelled := by
  rw [C13_spec]; cases c; rfl

end MoreExec.MapFut
