/- Hand-written prelude for the regenerated kernels: the record types the side table of pygen refers to. -/
namespace MoreExec.Gen

/-- What a kernel may observe of a future: identity and `done()`. -/
structure GFut where
  id : Nat
  done : Bool
deriving DecidableEq, Repr

/-- `timeout.Job` namedtuple (the delegate future is not read by the kernels). -/
structure GJob where
  future : GFut
  deadline : Nat
deriving DecidableEq, Repr

/-- An exception object: identity and Python truthiness (almost always true; see S18). -/
structure GExc where
  id : Nat
  truthy : Bool := true
deriving DecidableEq, Repr

abbrev GExcOpt := Option GExc

def excTruthy : GExcOpt → Bool
  | some e => e.truthy
  | none => false

/-- A result value: identity and Python truthiness. -/
structure GVal where
  id : Nat
  truthy : Bool
deriving DecidableEq, Repr

/-- What a combinator observes of a finished input future. -/
structure GIn where
  id : Nat
  cancelled : Bool
  exception : GExcOpt
  result : GVal
deriving DecidableEq, Repr

/-- A slot of `Zipper.fs`: still the input future, or already replaced by its result. -/
inductive GSlot
  | future (id : Nat)
  | value (v : GVal)
deriving DecidableEq, Repr

/-- How a `ProxyFuture` special method reaches the future's result (kernel K8). -/
inductive PKind
  | binop (sym : String)           -- `return self.__result <sym> other`   (full operator protocol on the result)
  | unop (sym : String)            -- `return <sym> self.__result`
  | builtin (name : String)        -- `return name(self.__result, …)`      (full builtin protocol on the result)
  | subscript (mode : String)      -- `self.__result[key]` get / set / del
  | contains                       -- `item in self.__result`
  | getattr (guarded : Bool)       -- `getattr(self.__result, name)`; guarded = `__x` names raise AttributeError first
  | directDunder (name : String)   -- `return self.__result.__name__(…)`   (NO fall-back: differs from the operator)
  | const                          -- never touches the result
  | selfCall (name : String)       -- delegates to another method of the proxy
  | other (what : String)
deriving DecidableEq, Repr

/-- `ExceptionRetryPolicy` parameters (whole numbers: the scenarios use whole seconds and integer exponents). -/
structure GPolicy where
  maxAttempts : Nat
  exponent : Nat
  sleep : Nat
  maxSleep : Nat
  base : List Nat          -- exception classes of `exception_base`
deriving DecidableEq, Repr

/-- What `_get_next_job` reads of a `RetryJob`. -/
structure GRJob where
  fut : Nat
  hasDelegate : Bool
  stopRetry : Bool
  when : Nat
deriving DecidableEq, Repr

def listFoldMin : List Nat → Nat
  | [] => 0
  | [x] => x
  | x :: xs => min x (listFoldMin xs)

def listFoldMax : List Nat → Nat
  | [] => 0
  | [x] => x
  | x :: xs => max x (listFoldMax xs)

end MoreExec.Gen
