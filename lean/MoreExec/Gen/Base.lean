/- Hand-written prelude for the regenerated kernels: the record types the side table of pygen refers to. -/
namespace MoreExec.Gen

/-- What a kernel may observe of a future: identity and `done()`. -/
structure GFut where
  id : Nat
  done : Bool
deriving DecidableEq, Repr

/-- `timeout.Job` namedtuple (the delegate future is not read by the kernels). -/
structure GJob where
  future : GFut
  deadline : Nat
deriving DecidableEq, Repr

def listFoldMin : List Nat → Nat
  | [] => 0
  | [x] => x
  | x :: xs => min x (listFoldMin xs)

def listFoldMax : List Nat → Nat
  | [] => 0
  | [x] => x
  | x :: xs => max x (listFoldMax xs)

end MoreExec.Gen
