/-
  Model of `bind` / `flat_bind` / `with_*` chaining and name propagation (wrap.py, executors.py, bind.py).
  The wiring facts are the constants K9 regenerated from the source.
-/
import MoreExec.Gen.K9

namespace MoreExec.Bind
open MoreExec.Gen

/-- an executor stack -/
inductive Ex
  | base (name : String)
  | layer (cls : String) (inner : Ex) (name : String)
deriving DecidableEq, Repr

def Ex.name : Ex → String
  | .base n => n
  | .layer _ _ n => n

/-- what `with_*` can be called on: an executor, or a callable bound to an executor -/
inductive Target
  | exec (e : Ex)
  | bound (e : Ex) (fn : Nat)
deriving DecidableEq, Repr

/-- one chaining step: a `with_*` method with its optional explicit `name=` -/
structure Step where
  cls : String
  explicit : Option String := none
deriving DecidableEq, Repr

/-- `__propagate_name`: the name found on the object `with_*` is called on, if it has one -/
def propagated (boundHasName : Bool) : Target → Option String
  | .exec e => some e.name
  | .bound e _ => if boundHasName then some e.name else none

/-- `with_X(...)`: propagate the name unless given, then `_customize` -/
def withStep (boundHasName : Bool) (t : Target) (st : Step) : Target :=
  let nm := match st.explicit with
    | some n => n
    | none => (propagated boundHasName t).getD "default"
  match t with
  | .exec e => .exec (.layer st.cls e nm)
  | .bound e fn => .bound (.layer st.cls e nm) fn     -- new executor around the bound one, same fn re-bound

def chain (boundHasName : Bool) (t : Target) (steps : List Step) : Target := steps.foldl (withStep boundHasName) t

def bind (e : Ex) (fn : Nat) : Target := .bound e fn

/-- `bound(*args)` = `executor.submit(fn, *args)`: the executor stack that will run the callable -/
def runsOn : Target → Ex
  | .exec e => e
  | .bound e _ => e

/-- names forgotten (the executor stack as far as outcomes and invocation counts are concerned) -/
def Ex.shape : Ex → List String
  | .base _ => []
  | .layer c i _ => c :: i.shape

/-- every layer of the stack carries name `n` -/
def Ex.allNamed (n : String) : Ex → Prop
  | .base m => m = n
  | .layer _ i m => m = n ∧ i.allNamed n

end MoreExec.Bind
