/-
  Model of `CancelOnShutdownExecutor` (cancel_on_shutdown.py) with the shutdown gate of helpers.py.

  G = `ShutdownHelper._lock` (non re-entrant, held by `ensure_alive` for the whole of submit), X = `_lock`.
    subEnter t     submit: acquire G, flag clear → keep G            subRefuse t   flag set → RuntimeError
    subAdd t f     `with self._lock: future = delegate.submit(); self._futures.add(future); add_done_callback(discard)`
    subExit t      release G, return the future
    fdone f        the future becomes done;   discard f   … and (a moment later, from its done-callback) discards itself from the set
    sdFlip t       shutdown: `self._shutdown()` — acquire G, set the flag, release   (sdNoop t: flag already set → return)
    sdSnap t       `with self._lock: futures = self._futures.copy()`
    sdCancel t f   `f.cancel()` for a future of the copy not yet cancelled
    sdDelegate t   `self._delegate.shutdown(wait, **kwargs)`
    sdRet t        shutdown returns
-/
import MoreExec.Base.Sys

namespace MoreExec.CoS

inductive SPc
  | flipped
  | sweeping (rest : List Nat)
  | finishing
deriving DecidableEq, Repr

structure St where
  gate : Option Nat := none
  flag : Bool := false
  tracked : List Nat := []           -- `_futures`
  accepted : List Nat := []          -- ghost: futures created by an accepted submit
  doneF : List Nat := []             -- futures that are done
  shutter : Option (Nat × SPc) := none  -- the shutdown call that flipped the flag (`ShutdownHelper.__call__` returns True once)
  snapped : Bool := false
  snapshot : List Nat := []          -- ghost: the copy taken by the sweeping shutdown
  doneAtSnap : List Nat := []        -- ghost: futures done when the copy was taken
  cancels : List Nat := []           -- ghost log: cancel() calls issued by shutdown
  delegateShut : Nat := 0            -- number of `delegate.shutdown` calls
  returned : List Nat := []          -- shutdown calls (threads) that have returned after sweeping
  refused : Nat := 0
deriving Repr

inductive Act
  | subEnter (t : Nat) | subRefuse (t : Nat) | subAdd (t f : Nat) | subExit (t : Nat)
  | fdone (f : Nat) | discard (f : Nat)
  | sdFlip (t : Nat) | sdNoop (t : Nat) | sdSnap (t : Nat) | sdCancel (t f : Nat) | sdDelegate (t : Nat) | sdRet (t : Nat)
deriving DecidableEq, Repr

def step (s : St) : Act → Option St
  | .subEnter t => if s.gate = none ∧ s.flag = false then some { s with gate := some t } else none
  | .subRefuse _ => if s.gate = none ∧ s.flag = true then some { s with refused := s.refused + 1 } else none
  | .subAdd t f =>
      if s.gate = some t ∧ f ∉ s.accepted then some { s with tracked := s.tracked ++ [f], accepted := s.accepted ++ [f] } else none
  | .subExit t => if s.gate = some t then some { s with gate := none } else none
  | .fdone f =>
      if f ∈ s.accepted ∧ f ∉ s.doneF then some { s with doneF := s.doneF ++ [f] } else none
  | .discard f =>
      -- the future's done-callback `self._futures.discard` (runs after the future became done, outside every lock)
      if f ∈ s.doneF then some { s with tracked := s.tracked.erase f } else none
  | .sdFlip t =>
      if s.gate = none ∧ s.flag = false then some { s with flag := true, shutter := some (t, .flipped) } else none
  | .sdNoop _ => if s.gate = none ∧ s.flag = true then some s else none
  | .sdSnap t =>
      match s.shutter with
      | some (t', .flipped) =>
          if t' = t then some { s with shutter := some (t, .sweeping s.tracked), snapshot := s.tracked, doneAtSnap := s.doneF, snapped := true }
          else none
      | _ => none
  | .sdCancel t f =>
      -- the copy is a set: its iteration order is unspecified, any remaining member may come next
      match s.shutter with
      | some (t', .sweeping rest) =>
          if t' = t ∧ f ∈ rest then some { s with shutter := some (t, .sweeping (rest.erase f)), cancels := s.cancels ++ [f] } else none
      | _ => none
  | .sdDelegate t =>
      match s.shutter with
      | some (t', .sweeping []) =>
          if t' = t then some { s with shutter := some (t, .finishing), delegateShut := s.delegateShut + 1 } else none
      | _ => none
  | .sdRet t =>
      match s.shutter with
      | some (t', .finishing) => if t' = t then some { s with shutter := none, returned := s.returned ++ [t] } else none
      | _ => none

def init : St := {}
abbrev run := runFrom step

end MoreExec.CoS
