/-
  Model of the `_Future` protocol (more_executors/_impl/common.py, with the `set_*` overrides of map.py / retry.py /
  poll.py): one future, any number of threads, at the granularity of the sections protected by `_me_lock`.

    addStore t c    add_done_callback, future not done: append under the lock (atomic check-and-append)
    addDirect t c   add_done_callback, future done: leave the lock, then…   callDirect t c   …call c directly
    finish t        a `set_result` / `set_exception` wins: state change under the lock; the callbacks present are now
                    owed by thread t, which invokes them after releasing the lock
    cancelOk t      a `cancel()` wins: `super().cancel()` + `set_running_or_notify_cancel()` under the lock; callbacks owed by t
    cancelNoop t    `cancel()` on a future that is already done: returns True iff it is cancelled
    cancelVeto t    `_me_cancel()` refused: returns False, nothing changes
    setLate t       a `set_*` that lost the race: InvalidStateError (absorbed by try_set_result / copy_exception) or, for
                    PollFuture, a silent return — nothing changes, no callback pass
    invokeNext t    thread t calls the next callback it owes;   invokeEnd t   … and resets the list
  Callbacks are identified by registration (a callable registered twice is two callbacks).
-/
import MoreExec.Base.Sys

namespace MoreExec.MeFuture

inductive FSt | pending | cancelled | finished
deriving DecidableEq, Repr

structure St where
  st : FSt := .pending
  stored : List Nat := []                 -- `_me_done_callbacks`
  owed : Option (Nat × List Nat) := none  -- the completing thread and the callbacks it still has to call
  direct : List (Nat × Nat) := []         -- (thread, callback) pairs about to be called directly
  -- ghosts
  registered : List Nat := []
  invoked : List Nat := []
  cancelTrue : Nat := 0                   -- number of cancel() calls that returned True
  notified : Bool := false                -- wait()/as_completed() waiters have been notified
deriving Repr

inductive Act
  | addStore (t c : Nat) | addDirect (t c : Nat) | callDirect (t c : Nat)
  | finish (t : Nat) | cancelOk (t : Nat) | cancelNoop (t : Nat) | cancelVeto (t : Nat) | setLate (t : Nat)
  | invokeNext (t : Nat) | invokeEnd (t : Nat)
deriving DecidableEq, Repr

def step (s : St) : Act → Option St
  | .addStore _ c =>
      if s.st = .pending ∧ c ∉ s.registered then some { s with stored := s.stored ++ [c], registered := s.registered ++ [c] } else none
  | .addDirect t c =>
      if s.st ≠ .pending ∧ c ∉ s.registered then some { s with direct := s.direct ++ [(t, c)], registered := s.registered ++ [c] } else none
  | .callDirect t c =>
      if (t, c) ∈ s.direct then some { s with direct := s.direct.erase (t, c), invoked := s.invoked ++ [c] } else none
  | .finish t =>
      if s.st = .pending then some { s with st := .finished, owed := some (t, s.stored), stored := [], notified := true } else none
  | .cancelOk t =>
      if s.st = .pending then
        some { s with st := .cancelled, owed := some (t, s.stored), stored := [], cancelTrue := s.cancelTrue + 1, notified := true }
      else none
  | .cancelNoop _ =>
      if s.st = .cancelled then some { s with cancelTrue := s.cancelTrue + 1 }
      else if s.st = .finished then some s else none
  | .cancelVeto _ => if s.st = .pending then some s else none
  | .setLate _ => if s.st ≠ .pending then some s else none
  | .invokeNext t =>
      match s.owed with
      | some (t', c :: rest) => if t' = t then some { s with owed := some (t, rest), invoked := s.invoked ++ [c] } else none
      | _ => none
  | .invokeEnd t =>
      match s.owed with
      | some (t', []) => if t' = t then some { s with owed := none } else none
      | _ => none

def init : St := {}
abbrev run := runFrom step

def owedList (s : St) : List Nat := match s.owed with | some (_, l) => l | none => []

end MoreExec.MeFuture
