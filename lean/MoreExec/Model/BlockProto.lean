/-
  Model of the BLOCKING-MODE protocol of `ThrottleExecutor` (more_executors/_impl/throttle.py, `block=True`):
  `submit()` → `_block_until_ready(throttle_val)` waits on `self._room = Condition(self._lock)` — the queue's own lock —
  while the regenerated test `Gen.K4.blockWait throttle_val len(queue) is_shutdown` holds; every place that shrinks the
  queue (`_submit_loop_iter`'s locked section, `_do_cancel`) calls `notify_all()` on that condition while holding the lock.

  The model abstracts the queue to its length and the submitters to two counters, so it covers ANY number of submitter
  threads.  One action = one critical section on the queue's lock (a `Condition.wait` releases the lock and parks in ONE
  step: that atomicity is what the condition variable provides, and what the former `Event`-based code lacked):

    enq                 submit():  `with self._lock: self._to_submit.append(job)`
    pop k               hand-over thread: the locked section of `_submit_loop_iter` took k jobs (k may be 0); it notifies all
                        blocked submitters iff k > 0  (`Gen.K4.admissionNotifies`, see `admissionNotifies_spec`)
    cancelRm            `_do_cancel` removed a queued job and notified
    check tv sh park    a submitter holding the lock evaluates the `while` test with its `throttle_val = tv`, reading the shutdown
                        flag as `sh`; `park = true`: it calls `wait()` (releases the lock and parks), `false`: it leaves the loop
    wake timeout        a parked submitter re-acquires the lock: after a notification (`timeout = false`) or after the 30 s
                        fall-back (`timeout = true`); its next action is a `check`
    shutBegin / shutFlip / shutNotify   `shutdown()`: called; flag written (the flag is read without a lock: between shutBegin
                        and shutFlip a reader may see either value); `with self._room: notify_all()`
-/
import MoreExec.Base.Sys
import MoreExec.Gen.K4

namespace MoreExec.BlockProto
open MoreExec.Gen

inductive Shut
  | no | begun | done
deriving DecidableEq, Repr

structure St where
  qlen : Nat := 0           -- len(_to_submit)
  parked : Nat := 0         -- submitters inside `_room.wait()`, neither notified nor timed out
  notified : Nat := 0       -- submitters notified, not yet running again (they still have to re-acquire the lock)
  shut : Shut := .no
deriving DecidableEq, Repr

inductive Act
  | enq
  | pop (k : Nat)
  | cancelRm
  | check (tv : Option Nat) (sh : Bool) (park : Bool)
  | wake (timeout : Bool)
  | shutBegin
  | shutFlip
  | shutNotify
deriving DecidableEq, Repr

/-- values of `is_shutdown` an unlocked reader may observe -/
def mayRead (s : Shut) (sh : Bool) : Bool :=
  match s with
  | .no => !sh
  | .begun => true
  | .done => sh

def notifyAll (s : St) : St := { s with notified := s.notified + s.parked, parked := 0 }

def step (s : St) : Act → Option St
  | .enq => some { s with qlen := s.qlen + 1 }
  | .pop k =>
      if k ≤ s.qlen then
        let s1 := { s with qlen := s.qlen - k }
        some (if k = 0 then s1 else notifyAll s1)
      else none
  | .cancelRm => if 0 < s.qlen then some (notifyAll { s with qlen := s.qlen - 1 }) else none
  | .check tv sh park =>
      if mayRead s.shut sh ∧ park = K4.blockWait tv s.qlen sh then
        some (if park then { s with parked := s.parked + 1 } else s)
      else none
  | .wake timeout =>
      if timeout then (if 0 < s.parked then some { s with parked := s.parked - 1 } else none)
      else (if 0 < s.notified then some { s with notified := s.notified - 1 } else none)
  | .shutBegin => if s.shut = .no then some { s with shut := .begun } else none
  | .shutFlip => if s.shut = .begun then some { s with shut := .done } else none
  | .shutNotify => some (notifyAll s)

def init : St := {}

abbrev run := runFrom step

end MoreExec.BlockProto
