/-
  Model of `Zipper` (futures/zip.py): `f_zip`, and through it `f_sequence` / `f_traverse`.
  The decision part of `handle_done` is the kernel K6 regenerated from zip.py; one `handleDone` is one critical
  section (`with self.lock`) followed by the write it decides.
-/
import MoreExec.Gen.K6

namespace MoreExec.Zipper
open MoreExec.Gen

inductive ZOut
  | tuple (vs : List GSlot)
  | err (e : GExc)
  | cancelled
deriving DecidableEq, Repr

structure ZSt where
  fs : List GSlot
  remaining : Nat
  done : Bool := false
  out : Option ZOut := none
deriving DecidableEq, Repr

def initSt (n : Nat) : ZSt := { fs := (List.range n).map .future, remaining := n }

def handleDone (s : ZSt) (index : Nat) (f : GIn) : ZSt :=
  let r := K6.zipUpdate s.fs s.remaining s.done index f
  let sr := r.1
  let se := r.2.1
  let c := r.2.2.1
  let dn := r.2.2.2.1
  let fs' := r.2.2.2.2.1
  let rem' := r.2.2.2.2.2
  { fs := fs', remaining := rem', done := dn,
    out := if c then some .cancelled
           else if sr then some (.tuple fs')
           else if se then f.exception.map .err
           else s.out }

/-- a run: completions `(index, input)` in the order of their critical sections -/
def run (s : ZSt) (cs : List (Nat × GIn)) : ZSt := cs.foldl (fun s c => handleDone s c.1 c.2) s

/-- `f_traverse`'s list comprehension `[fn(x) for x in xs]`: `fn` is called once per element in iteration order
and the first raise aborts it.  `fn x = .inl fut` (returned future) or `.inr e` (raised). -/
def traverseCalls {α β ε : Type} (fn : α → Sum β ε) : List α → (List α × Sum (List β) ε)
  | [] => ([], .inl [])
  | x :: xs =>
    match fn x with
    | .inr e => ([x], .inr e)
    | .inl b =>
      match traverseCalls fn xs with
      | (called, .inl bs) => (x :: called, .inl (b :: bs))
      | (called, .inr e) => (x :: called, .inr e)

end MoreExec.Zipper
