/-
  Model of `f_apply` (futures/apply.py): `_wrap_args`, `_wrapped_f_apply`, `fn_runner`, written as the code is:
  one flat-map per argument (over the argument future) around a map over the function future, insertion of the
  argument at index 0 of the positional list or under its keyword, recursion over the remaining arguments.
  The map / flat_map steps are those of Model/MapFut (C13): success applies the function, failure propagates.
-/
namespace MoreExec.Apply

abbrev Val := Nat
abbrev Exc := Nat
abbrev Key := Nat

inductive Outcome (α : Type)
  | ok (v : α)
  | err (e : Exc)
  | cancelled
deriving Repr

/-- Function values flowing through the futures: the user's function, or `fn_runner(fn, x)` closures. -/
inductive Clo
  | base
  | runner (c : Clo) (key : Option Key) (x : Val)    -- key = none ⇔ `key is ARGS`
deriving DecidableEq, Repr

/-- `kwargs[key] = x` on an association list (later binding wins on lookup). -/
def kwSet (kw : List (Key × Val)) (k : Key) (x : Val) : List (Key × Val) := (k, x) :: kw.filter (fun p => p.1 != k)

/-- Calling a closure: `out(*args, **kwargs)` of `fn_runner`. Returns the arguments the user's function finally
receives. -/
def callClo : Clo → List Val → List (Key × Val) → (List Val × List (Key × Val))
  | .base, pos, kw => (pos, kw)
  | .runner c none x, pos, kw => callClo c (x :: pos) kw          -- args.insert(0, x)
  | .runner c (some k) x, pos, kw => callClo c pos (kwSet kw k x) -- kwargs[key] = x

structure Res where
  out : Outcome (List Val × List (Key × Val))   -- ok: the user's function was called with these arguments
  deriving Repr

/-- `_wrapped_f_apply(future_fn, future_args)` on the terminal outcomes of the futures involved. -/
def wrapped (futureFn : Outcome Clo) : List (Option Key × Outcome Val) → Outcome (List Val × List (Key × Val))
  | [] =>
      -- wrap(future_fn).with_map(lambda fn: fn())()
      match futureFn with
      | .ok c => .ok (callClo c [] [])
      | .err e => .err e
      | .cancelled => .cancelled
  | (key, fx) :: rest =>
      -- wrap(future_x).with_flat_map(lambda x: wrap(future_fn).with_map(lambda fn: fn_runner(fn, x))())()
      let next : Outcome Clo :=
        match fx with
        | .ok x => (match futureFn with
            | .ok c => .ok (.runner c key x)
            | .err e => .err e
            | .cancelled => .cancelled)
        | .err e => .err e
        | .cancelled => .cancelled
      wrapped next rest

/-- `f_apply(future_fn, *future_args, **future_kwargs)`: positional arguments first, then keywords (`_wrap_args`). -/
def fApply (fnFut : Outcome Unit) (pos : List (Outcome Val)) (kws : List (Key × Outcome Val)) :
    Outcome (List Val × List (Key × Val)) :=
  wrapped (match fnFut with | .ok _ => .ok .base | .err e => .err e | .cancelled => .cancelled)
    (pos.map (fun o => (none, o)) ++ kws.map (fun p => (some p.1, p.2)))

end MoreExec.Apply
