/-
  Model of the lifecycle of a worker executor (retry / poll / throttle / timeout): who keeps the executor object alive, and
  how its thread notices that it should exit.

  The thread's target receives `weakref.ref(executor, lambda _: event.set())`.  Each iteration: dereference; if the object
  is gone, or shut down, or the interpreter is exiting: return; else work, DROP the strong reference, wait on the event,
  clear it, loop.
    dropUser       the user drops a reference (userRefs - 1)
    submitNew      a submit() creates a pending future, which references the executor (needs a live user reference)
    futDone        a pending future becomes done and drops its reference to the executor
    collect        the last strong reference is gone: the object is collected and the weakref callback sets the event
    atExit         interpreter exit: the global handler sets the exiting flag, then sets every registered event
    shutdownA      shutdown(): flag, then event.set()
    wDeref / wWork / wRelease / wWait / wWake / wClear    the loop
-/
import MoreExec.Base.Sys

namespace MoreExec.Lifecycle

inductive WPc | top | working | releasing | wait | parked | clear | exited
deriving DecidableEq, Repr

structure St where
  userRefs : Nat := 1
  pendingRefs : Nat := 0
  workerHolds : Bool := false
  collected : Bool := false
  shutdown : Bool := false
  exiting : Bool := false
  evt : Bool := false
  wpc : WPc := .top
deriving DecidableEq, Repr

inductive Act
  | dropUser | submitNew | futDone | collect | atExit | shutdownA
  | wDeref | wWork | wRelease | wWait | wWake | wClear
deriving DecidableEq, Repr

def step (s : St) : Act → Option St
  | .dropUser => if 0 < s.userRefs then some { s with userRefs := s.userRefs - 1 } else none
  | .submitNew => if 0 < s.userRefs ∧ s.collected = false ∧ s.shutdown = false then some { s with pendingRefs := s.pendingRefs + 1 } else none
  | .futDone => if 0 < s.pendingRefs then some { s with pendingRefs := s.pendingRefs - 1 } else none
  | .collect =>
      if s.userRefs = 0 ∧ s.pendingRefs = 0 ∧ s.workerHolds = false ∧ s.collected = false then
        some { s with collected := true, evt := true }
      else none
  | .atExit => some { s with exiting := true, evt := true }
  | .shutdownA => if s.collected = false then some { s with shutdown := true, evt := true } else none
  | .wDeref =>
      if s.wpc = .top then
        if s.collected then some { s with wpc := .exited }
        else some { s with workerHolds := true, wpc := .working }
      else none
  | .wWork =>
      if s.wpc = .working then
        if s.shutdown || s.exiting then some { s with workerHolds := false, wpc := .exited }
        else some { s with wpc := .releasing }
      else none
  | .wRelease => if s.wpc = .releasing then some { s with workerHolds := false, wpc := .wait } else none
  | .wWait => if s.wpc = .wait then some { s with wpc := if s.evt then .clear else .parked } else none
  | .wWake => if s.wpc = .parked then some { s with wpc := .clear } else none
  | .wClear => if s.wpc = .clear then some { s with evt := false, wpc := .top } else none

def init : St := {}
abbrev run := runFrom step

def workerStep (s : St) : St :=
  match s.wpc with
  | .top => if s.collected then { s with wpc := .exited } else { s with workerHolds := true, wpc := .working }
  | .working => if s.shutdown || s.exiting then { s with workerHolds := false, wpc := .exited } else { s with wpc := .releasing }
  | .releasing => { s with workerHolds := false, wpc := .wait }
  | .wait => { s with wpc := if s.evt then .clear else .parked }
  | .parked => if s.evt then { s with wpc := .clear } else s
  | .clear => { s with evt := false, wpc := .top }
  | .exited => s

/-- the thread has been told to go away -/
def mustExit (s : St) : Bool := s.collected || s.shutdown || s.exiting

end MoreExec.Lifecycle
