/-
  Lock order of the library (C04).  A lock CLASS is (layer depth counted from the outermost layer of a stack, kind of the
  layer, role of the lock inside that layer); a global tail holds the locks every layer may take last.

  Roles:  gate   `ShutdownHelper._lock` (held for the whole of submit())
          fut    `_Future._me_lock` of a future handed out by the layer
          exec   the executor's own lock (`RetryExecutor._lock`, `PollExecutor._lock`, `ThrottleExecutor._lock`,
                 `TimeoutExecutor._jobs_lock`, `CancelOnShutdownExecutor._lock`)
          counter `AtomicInt.lock`           comb  `BoolOperation.lock` / `Zipper.lock` / futures/timeout.LOCK
          registry the global event registry lock      cond  the stdlib Future's condition
  Within a layer the order depends on the kind: retry / throttle / map take the future's lock before the executor's
  (`_submit_now`, `_cancel`, `_do_cancel`), poll takes the executor's lock first (`_register_poll` clears the delegate
  link of the future under it).
-/
namespace MoreExec.LockOrder

inductive Role | gate | fut | exec | counter | comb | registry | cond
deriving DecidableEq, Repr

inductive Kind | retry | poll | throttle | timeout | map | cos | sync | other
deriving DecidableEq, Repr

structure LockClass where
  depth : Nat          -- 0 = outermost layer; the base executor and free-standing combinators are deepest
  kind : Kind
  role : Role
deriving DecidableEq, Repr

/-- position of a role inside its layer -/
def roleRank (k : Kind) : Role → Nat
  | .gate => 0
  | .fut => if k = .poll then 2 else 1
  | .exec => if k = .poll then 1 else 2
  | .counter => 3
  | .comb => 4
  | .registry => 5
  | .cond => 6

/-- global locks come after every layer lock -/
def rank (c : LockClass) : Nat :=
  match c.role with
  | .registry => 1000000
  | .cond => 1000001
  | _ => c.depth * 8 + roleRank c.kind c.role

/-- a thread that holds `held` may block on `acq` -/
def allowed (held acq : LockClass) : Bool := decide (rank held < rank acq)

/-- `ls` is a waits-for chain: the thread holding ls[i] is blocked on ls[i+1], having respected the discipline -/
def Chain : List LockClass → Prop
  | [] => True
  | [_] => True
  | a :: b :: rest => allowed a b = true ∧ Chain (b :: rest)

end MoreExec.LockOrder
