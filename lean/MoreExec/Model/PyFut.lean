/-
  A deep embedding of the statement forms in which the `_Future` protocol methods are written
  (common.py: `_Future.add_done_callback`, `cancel`, `_me_delegate_cancelled`, `_me_invoke_callbacks`, `_OutputFuture.set_result /
  set_exception`; map.py: `MapFuture.set_result / set_exception`; poll.py: `PollFuture.set_result / set_exception_info`), with an
  interpreter.  `harness/pygen` (kernel K16) turns the current source of those methods into a pair

      locked : Stmt      the body of the method's `with self._me_lock:` block   (one critical section)
      tail   : Stmt      what follows the block, outside the lock

  (`_me_invoke_callbacks` has no locked part).  `Model/MeFuture.lean` is the section-level model of the same protocol, written by
  hand; `Proofs/MeFuture/K16.lean` proves that each regenerated locked part, run from ANY state of the future, is exactly one action
  of that model (or changes nothing), and that the regenerated callback pass calls every stored callback once, in order, whatever
  some of them raise - for callback lists of any length.

  MODELLED here, by hand: the stdlib `Future` underneath (`super().cancel()`, `super().set_result(x)`, `set_running_or_notify_cancel()`,
  `done()`, `cancelled()`), `list.append`, and `self._me_cancel()` (an oracle: its answer is a parameter; while it runs, re-entrant
  calls on this future are no-ops because `_me_cancelling` is set - that guard is itself one of the regenerated sections).
-/
import MoreExec.Model.MeFuture

namespace MoreExec.PyFut
open MoreExec.MeFuture (FSt)

inductive Expr
  | var (i : Nat)
  | tt | ff
  | done                                   -- self.done()
  | cancelled                              -- self.cancelled()
  | cancelling                             -- self._me_cancelling
  | meCancel                               -- self._me_cancel()
  | superCancel                            -- super().cancel()
  | not (e : Expr)
  | or (a b : Expr)
deriving DecidableEq, Repr

inductive Stmt
  | skip
  | seq (a b : Stmt)
  | assign (x : Nat) (e : Expr)
  | ite (c : Expr) (t f : Stmt)
  | ret (e : Option Expr)
  | eval (e : Expr)                        -- expression statement
  | setCancelling (b : Bool)               -- self._me_cancelling = <b>
  | append                                 -- self._me_done_callbacks.append(fn)
  | superSet                               -- super().set_result(x) / set_exception(x) / set_exception_info(x, tb)
  | notifyCancel                           -- self.set_running_or_notify_cancel()
  | tryFinally (body fin : Stmt)
  -- outside the lock only
  | invoke (body : Stmt)                   -- self._me_invoke_callbacks(), inlined
  | forCbs (body : Stmt)                   -- for callback in self._me_done_callbacks: <body>
  | tryLog (body : Stmt)                   -- try: <body> except Exception: LOG.exception(...)
  | callCb                                 -- callback(self)
  | resetCbs                               -- self._me_done_callbacks = []
  | callFn                                 -- fn(self)
deriving DecidableEq, Repr

inductive Ctl
  | normal
  | returned (v : Option Bool)
  | raisedInvalidState                     -- concurrent.futures.InvalidStateError from the stdlib setter
  | raisedUser                             -- an exception raised by a user callback
  | stuck                                  -- a step the stdlib would not take this way (not reachable: see the theorems)
deriving DecidableEq, Repr

structure S where
  st : FSt := .pending
  cbs : List Nat := []                     -- self._me_done_callbacks
  cancelling : Bool := false
  notified : Bool := false                 -- waiters of wait()/as_completed() have been notified
  env : Nat → Bool := fun _ => false       -- locals (all Boolean here)
  fn : Nat := 0                            -- the `fn` argument of add_done_callback
  cur : Nat := 0                           -- the loop variable `callback`
  meCancelAnswer : Bool := true            -- what `_me_cancel()` returns
  raises : Nat → Bool := fun _ => false    -- which callbacks raise
  -- traces
  invoked : List Nat := []                 -- callbacks called by the callback pass, in order
  direct : List Nat := []                  -- callbacks called directly by add_done_callback

def S.setVar (s : S) (i : Nat) (b : Bool) : S := { s with env := fun j => if j = i then b else s.env j }

def isDone (s : S) : Bool := decide (s.st ≠ .pending)

/-- expressions: a value, or a stdlib error -/
def evalE : Expr → S → S × Option Bool
  | .var i, s => (s, some (s.env i))
  | .tt, s => (s, some true)
  | .ff, s => (s, some false)
  | .done, s => (s, some (isDone s))
  | .cancelled, s => (s, some (decide (s.st = .cancelled)))
  | .cancelling, s => (s, some s.cancelling)
  | .meCancel, s => (s, some s.meCancelAnswer)
  | .superCancel, s =>
      -- concurrent.futures.Future.cancel(): PENDING -> CANCELLED, True; CANCELLED -> True; FINISHED -> False
      (match s.st with
       | .pending => ({ s with st := .cancelled }, some true)
       | .cancelled => (s, some true)
       | .finished => (s, some false))
  | .not e, s =>
      (match evalE e s with
       | (s1, some b) => (s1, some (!b))
       | (s1, none) => (s1, none))
  | .or a b, s =>
      (match evalE a s with
       | (s1, some true) => (s1, some true)
       | (s1, some false) => evalE b s1
       | (s1, none) => (s1, none))

def loopCbs (body : S → S × Ctl) : List Nat → S → S × Ctl
  | [], s => (s, .normal)
  | c :: rest, s =>
      match body { s with cur := c } with
      | (s1, .normal) => loopCbs body rest s1
      | r => r

def exec : Stmt → S → S × Ctl
  | .skip, s => (s, .normal)
  | .seq a b, s =>
      (match exec a s with
       | (s1, .normal) => exec b s1
       | r => r)
  | .assign x e, s =>
      (match evalE e s with
       | (s1, some b) => (s1.setVar x b, .normal)
       | (s1, none) => (s1, .stuck))
  | .ite c t f, s =>
      (match evalE c s with
       | (s1, some true) => exec t s1
       | (s1, some false) => exec f s1
       | (s1, none) => (s1, .stuck))
  | .ret none, s => (s, .returned none)
  | .ret (some e), s =>
      (match evalE e s with
       | (s1, some b) => (s1, .returned (some b))
       | (s1, none) => (s1, .stuck))
  | .eval e, s =>
      (match evalE e s with
       | (s1, some _) => (s1, .normal)
       | (s1, none) => (s1, .stuck))
  | .setCancelling b, s => ({ s with cancelling := b }, .normal)
  | .append, s => ({ s with cbs := s.cbs ++ [s.fn] }, .normal)
  | .superSet, s =>
      -- Future.set_result / set_exception (3.8+): a future that is already done raises InvalidStateError; waiters are notified
      (match s.st with
       | .pending => ({ s with st := .finished, notified := true }, .normal)
       | _ => (s, .raisedInvalidState))
  | .notifyCancel, s =>
      -- set_running_or_notify_cancel(): on a CANCELLED future it notifies the waiters (and returns False);
      -- on a PENDING one it would mark it RUNNING, on a finished one it raises: neither is a step of this protocol
      (match s.st with
       | .cancelled => ({ s with notified := true }, .normal)
       | _ => (s, .stuck))
  | .tryFinally body fin, s =>
      (match exec body s with
       | (s1, c) =>
           (match exec fin s1 with
            | (s2, .normal) => (s2, c)
            | r => r))
  | .invoke body, s =>
      (match exec body s with
       | (s1, .returned _) => (s1, .normal)
       | r => r)
  | .forCbs body, s => loopCbs (fun s' => exec body s') s.cbs s
  | .tryLog body, s =>
      (match exec body s with
       | (s1, .raisedUser) => (s1, .normal)
       | r => r)
  | .callCb, s => ({ s with invoked := s.invoked ++ [s.cur] }, if s.raises s.cur then .raisedUser else .normal)
  | .resetCbs, s => ({ s with cbs := [] }, .normal)
  | .callFn, s => ({ s with direct := s.direct ++ [s.fn] }, if s.raises s.fn then .raisedUser else .normal)

/-- a method as the translator splits it -/
structure Method where
  locked : Stmt
  tail : Stmt
deriving DecidableEq, Repr

/-- does the method go on to its tail after the locked part ended this way? (`return` inside the block and exceptions leave the method) -/
def reachesTail : Ctl → Bool
  | .normal => true
  | _ => false

end MoreExec.PyFut
