/-
  Model of `RetryExecutor` (more_executors/_impl/retry.py) at the granularity of its lock-protected sections.

  Locks: `X` = `RetryExecutor._lock`, `F(f)` = `RetryFuture._me_lock` of future f.  One action = one section:
    submit f            submit_retry:   `_append_job(RetryJob(…, attempt 0, when = now))`                        [X]
    submitNow j         `_submit_now`, first half: pop j [X]; if f is done stop; `delegate.submit` (X NOT held)         [F(f)]
                        (the job was selected by `_get_next_job`, the regenerated kernel K2: `Ready`/`pickOk` below is
                        exactly K2's post-condition, proved in Proofs/Retry/K2.lean; a selected job has no delegate and is
                        never mutated afterwards, so selection and hand-over are merged — the only thing that can happen
                        in between is that a cancel pops it, and then f is done)
    submitApp           `_submit_now`, second half: append the in-flight job [X]; F(f) is released afterwards           [F(f)]
                        Between the two halves the future has NO job in `_jobs` and the executor lock is free (since the
                        fix e0c2b1e in /repo: the delegate's submit() may block, or run the callable - and nested submits,
                        done-callbacks of other futures - inline); what excludes a `cancel()` of f in that window is F(f),
                        i.e. `holdsF`.  The delegate future may already be done when the job is appended (`ddone` before
                        `submitApp`); its callback is attached only after F(f) is released.
    discard j           worker: a job carrying `stop_retry`: pop it, `copy_future(old_delegate, future)`
    ddone d c           the delegate future d becomes done (c = it was cancelled)
    cbCancelled d       `_delegate_callback`, delegate cancelled: `_pop_job` [X]; the call of `_me_delegate_cancelled()` is then owed
    cbMark f d inl      `_me_delegate_cancelled()` of future f (owed by the callback of delegate d)                      [F(f)]
                        inl = true: it runs on the thread that is itself inside `cancel()` of f (the callback was invoked inline
                        by that thread's `delegate.cancel()`): the RLock is re-entered, `_me_cancelling` is set, nothing happens -
                        the cancel in progress will finish the job.  inl = false: any other thread: it has to ACQUIRE F(f), i.e.
                        it waits for a cancel() in progress / the hand-over window to end, and then cancels f unless it is done.
    cbPolicy d r        `eval_policy`: unlocked read of `stop_retry` (r = none: it was set, policy not consulted), else the
                        policy (environment) decides r
    cbRetry d           `_retry`: pop + append the delayed job (stop_retry inherited inside the lock)               [X]
    cbFinal d           `copy_future(delegate, future)`; `_pop_job`
    cancelScan f        `RetryFuture.cancel` → `_cancel`: the scan section                                         [F(f), X]
    cancelDel f b       `found_job.delegate_future.cancel()` returned b                                           [F(f)]
    cancelEnd f         `_cancel` returned; `super().cancel()`; callbacks                                          [F(f) released]
    tick t              virtual time advances (idle jump)
-/
import MoreExec.Base.Sys

namespace MoreExec.Retry

structure Job where
  fut : Nat
  attempt : Nat
  whenT : Nat              -- due time; meaningful when `del = none`
  del : Option Nat         -- delegate future in flight
  stop : Bool              -- stop_retry
  old : Option Nat         -- old_delegate
deriving DecidableEq, Repr

/-- what the policy (environment) answered -/
inductive Pol
  | retry (sleep : Nat)
  | stopNow          -- should_retry returned False
  | raised           -- a policy method raised: treated as "do not retry"
deriving DecidableEq, Repr

/-- pending decision of a running `_delegate_callback` -/
inductive Dec
  | retry (sleep : Nat)
  | final
deriving DecidableEq, Repr

/-- where a `cancel()` call on future f is -/
inductive CSt
  | scanned (found : Option Nat) (popped : Bool)   -- after the scan section: delegate to cancel (if any)
  | delegated (r : Bool)                            -- `delegate.cancel()` answered r
deriving DecidableEq, Repr

structure St where
  now : Nat := 0
  jobs : List Job := []
  nextDel : Nat := 0
  delFut : List (Nat × Nat) := []        -- delegate ↦ future it was created for
  delDone : List Nat := []               -- delegates that are done
  delCancelled : List Nat := []
  done : List Nat := []                  -- futures in a terminal state
  cancelling : List (Nat × CSt) := []    -- cancel() calls in progress (they hold F(f))
  submitting : Option Job := none        -- `_submit_now` between its pop and its append: the in-flight job it will append
  marks : List (Nat × Nat) := []         -- owed `_me_delegate_cancelled()` calls: (future, the cancelled delegate whose callback owes it)
  decs : List (Nat × Dec) := []          -- callbacks between eval_policy and their section
  -- ghosts
  submitted : List Nat := []             -- futures handed out by submit()
  cancelReq : List Nat := []             -- futures on which a cancel() scan section has run
  refused : List Nat := []               -- delegates whose `cancel()` returned False to a `_cancel` (running or finished)
  submits : List (Nat × Nat × Nat) := [] -- log of delegate.submit: (future, attempt number, time)
  policyLog : List (Nat × Nat) := []     -- log of should_retry calls: (future, attempt)
  retries : List (Nat × Nat × Nat × Nat) := [] -- log of `_retry`: (future, finished delegate, time of the section, sleep_time)
  finished : List (Nat × Nat) := []      -- log: (delegate, time at which it became done)
  qGauge : Int := 0                      -- the `retry_queue` gauge: +1 in `_append_job`, -1 in `_pop_job`
deriving Repr

inductive Act
  | submit (f : Nat)
  | submitNow (j : Job)
  | submitApp
  | discard (j : Job)
  | ddone (d : Nat) (cancelled : Bool)
  | cbCancelled (d : Nat)
  | cbMark (f : Nat) (d : Nat) (inl : Bool)
  | cbPolicy (d : Nat) (r : Option Pol)
  | cbRetry (d : Nat)
  | cbFinal (d : Nat)
  | cancelScan (f : Nat)
  | cancelDel (f : Nat) (b : Bool)
  | cancelEnd (f : Nat)
  | tick (t : Nat)
deriving DecidableEq, Repr

/-- a `cancel()` call on f is in progress (`_me_cancelling`) -/
def cancellingF (s : St) (f : Nat) : Bool := s.cancelling.any (fun p => p.1 == f)

/-- some thread holds F(f): a `cancel()` in progress, or the submit thread inside `_submit_now` -/
def holdsF (s : St) (f : Nat) : Bool := cancellingF s f || s.submitting.any (fun j => j.fut == f)

def jobOfDel (s : St) (d : Nat) : Option Job := s.jobs.find? (fun j => j.del == some d)

def jobOfFut (s : St) (f : Nat) : Option Job := s.jobs.find? (fun j => j.fut == f)

def step (s : St) : Act → Option St
  | .submit f =>
      if f ∈ s.submitted then none else
      some { s with jobs := s.jobs ++ [⟨f, 0, s.now, none, false, none⟩], submitted := s.submitted ++ [f], qGauge := s.qGauge + 1 }
  | .submitNow j =>
      -- selected by K2: no delegate, not stopped, due
      if j ∈ s.jobs ∧ j.del = none ∧ j.stop = false ∧ j.whenT ≤ s.now ∧ holdsF s j.fut = false ∧ s.submitting = none then
        if j.fut ∈ s.done then some { s with jobs := s.jobs.erase j, qGauge := s.qGauge - 1 }
        else
          let d := s.nextDel
          some { s with jobs := s.jobs.erase j, submitting := some ⟨j.fut, j.attempt + 1, 0, some d, false, none⟩,
                        nextDel := d + 1, delFut := s.delFut ++ [(d, j.fut)],
                        submits := s.submits ++ [(j.fut, j.attempt + 1, s.now)], qGauge := s.qGauge - 1 }
      else none
  | .submitApp =>
      match s.submitting with
      | some nj => some { s with jobs := s.jobs ++ [nj], submitting := none, qGauge := s.qGauge + 1 }
      | none => none
  | .discard j =>
      if j ∈ s.jobs ∧ j.del = none ∧ j.stop = true then
        some { s with jobs := s.jobs.erase j, done := if j.fut ∈ s.done then s.done else s.done ++ [j.fut], qGauge := s.qGauge - 1 }
      else none
  | .ddone d c =>
      if d < s.nextDel ∧ d ∉ s.delDone then
        some { s with delDone := s.delDone ++ [d], delCancelled := if c then s.delCancelled ++ [d] else s.delCancelled,
                      finished := s.finished ++ [(d, s.now)] }
      else none
  | .cbCancelled d =>
      match jobOfDel s d with
      | some j =>
          if d ∈ s.delCancelled then
            some { s with jobs := s.jobs.erase j, marks := s.marks ++ [(j.fut, d)], qGauge := s.qGauge - 1 }
          else none
      | none => none
  | .cbMark f d inl =>
      if (f, d) ∈ s.marks then
        if inl then
          -- same thread as the `cancel()` of f whose `delegate.cancel()` is running this callback: only possible between that
          -- cancel's scan (which found delegate d) and the return of `d.cancel()`
          match s.cancelling.lookup f with
          | some (.scanned (some d') _) => if d' = d then some { s with marks := s.marks.erase (f, d) } else none
          | _ => none
        else
          if holdsF s f = false then
            some { s with marks := s.marks.erase (f, d), done := if f ∈ s.done then s.done else s.done ++ [f] }
          else none
      else none
  | .cbPolicy d r =>
      match jobOfDel s d with
      | some j =>
          if d ∈ s.delDone ∧ d ∉ s.delCancelled ∧ (s.decs.all (fun p => p.1 != d)) then
            match r with
            | none =>
                -- `eval_policy` saw `stop_retry` (an unlocked read) and did not consult the policy
                if j.stop then some { s with decs := s.decs ++ [(d, .final)] } else none
            | some r =>
                -- the policy was consulted (the flag was clear when it was read; a cancel may have set it since: `_retry`
                -- re-reads it inside the lock)
                let dec := match r with | .retry t => Dec.retry t | _ => Dec.final
                some { s with decs := s.decs ++ [(d, dec)], policyLog := s.policyLog ++ [(j.fut, j.attempt)] }
          else none
      | none => none
  | .cbRetry d =>
      match jobOfDel s d, s.decs.lookup d with
      | some j, some (.retry t) =>
          some { s with jobs := s.jobs.erase j ++ [⟨j.fut, j.attempt, s.now + t, none, j.stop, some d⟩],
                        decs := s.decs.filter (fun p => p.1 != d),
                        retries := s.retries ++ [(j.fut, d, s.now, t)], qGauge := s.qGauge - 1 + 1 }
      | _, _ => none
  | .cbFinal d =>
      match jobOfDel s d, s.decs.lookup d with
      | some j, some .final =>
          some { s with jobs := s.jobs.erase j, decs := s.decs.filter (fun p => p.1 != d),
                        done := if j.fut ∈ s.done then s.done else s.done ++ [j.fut], qGauge := s.qGauge - 1 }
      | _, _ => none
  | .cancelScan f =>
      if f ∈ s.submitted ∧ f ∉ s.done ∧ holdsF s f = false then
        match jobOfFut s f with
        | none => some { s with cancelling := s.cancelling ++ [(f, .scanned none false)], cancelReq := s.cancelReq ++ [f] }
        | some j =>
            match j.del with
            | none => some { s with jobs := s.jobs.erase j, cancelling := s.cancelling ++ [(f, .scanned none true)],
                                    cancelReq := s.cancelReq ++ [f], qGauge := s.qGauge - 1 }
            | some d => some { s with jobs := s.jobs.map (fun x => if x = j then { x with stop := true } else x),
                                      cancelling := s.cancelling ++ [(f, .scanned (some d) false)],
                                      cancelReq := s.cancelReq ++ [f] }
      else none
  | .cancelDel f b =>
      match s.cancelling.lookup f with
      | some (.scanned (some d) _) =>
          -- `delegate.cancel()`: True on a delegate that is not done yet (which makes it done, cancelled) and on one that is
          -- already cancelled (by someone else, meanwhile); False on one that is running or finished - never on a cancelled one
          if b then
            if d ∈ s.delCancelled then
              some { s with cancelling := (s.cancelling.filter (fun p => p.1 != f)) ++ [(f, .delegated true)] }
            else if d ∈ s.delDone then none
            else some { s with cancelling := (s.cancelling.filter (fun p => p.1 != f)) ++ [(f, .delegated true)],
                               delDone := s.delDone ++ [d], delCancelled := s.delCancelled ++ [d],
                               finished := s.finished ++ [(d, s.now)] }
          else
            if d ∈ s.delCancelled then none
            else some { s with cancelling := (s.cancelling.filter (fun p => p.1 != f)) ++ [(f, .delegated false)],
                               refused := s.refused ++ [d] }
      | _ => none
  | .cancelEnd f =>
      match s.cancelling.lookup f with
      | some (.scanned none _) =>
          some { s with cancelling := s.cancelling.filter (fun p => p.1 != f),
                        done := if f ∈ s.done then s.done else s.done ++ [f] }
      | some (.delegated true) =>
          some { s with cancelling := s.cancelling.filter (fun p => p.1 != f),
                        done := if f ∈ s.done then s.done else s.done ++ [f] }
      | some (.delegated false) =>
          some { s with cancelling := s.cancelling.filter (fun p => p.1 != f) }
      | _ => none
  | .tick t => if s.now ≤ t then some { s with now := t } else none

def init : St := {}

abbrev run := runFrom step

end MoreExec.Retry
