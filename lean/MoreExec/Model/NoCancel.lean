/-
  Model of `f_nocancel` (futures/nocancel.py): `NoCancelFuture` is a `MapFuture` over the input whose mapping function is the
  identity and whose `cancel()` is overridden by the constant `return False` (Gen/K8 regenerates these three facts from the
  source: base class list, the set of overridden names, the constructor call made by `f_nocancel`).

  State: the input future, the wrapper, and whether the wrapper's done-callback (`MapFuture._delegate_resolved`, registered on the
  input by the constructor) is still owed.  Actions carry every environment choice, so `∀ (as : List Act)` ranges over every
  number of `cancel()` calls on the wrapper by any threads, at any moment relative to the input's completion, and over the input
  being completed by its producer or CANCELLED BY SOMEBODY WHO HOLDS THE INPUT ITSELF (that is not the wrapper's doing).

  Atomicity assumptions: the input's state change is one step (stdlib `Future` condition); the callback is one step (it runs
  `MapFut.resolve`, which Props/C13Code proves equal to the regenerated method bodies); `cancel()` of the wrapper is one step
  and touches nothing (`K8.nocancelCancelIsConstFalse`).
-/
import MoreExec.Model.MapFut

namespace MoreExec.NoCancel
open MoreExec.MapFut

/-- What `f_nocancel` builds: `NoCancelFuture(future, lambda x: x)` - plain map, identity, no error function. -/
def cfg : Cfg := { flat := false, fn := some (fun v => .ret v), errFn := none }

/-- the wrapper's outcome that "mirrors" an input outcome -/
def mirror : Outcome → Out
  | .ok v => .ok v
  | .err e => .err e
  | .cancelled => .cancelled

structure St where
  inner : Option Outcome      -- the wrapped future: pending or terminal
  owed : Bool                 -- input terminal, wrapper's done-callback not yet run
  outer : Option Out          -- the wrapper
  rets : List Bool            -- what each `wrapper.cancel()` returned, newest first
  reached : Nat               -- number of cancel requests the WRAPPER passed on to the input

inductive Act
  | wcancel                   -- any thread calls `cancel()` on the wrapper
  | finish (o : Outcome)      -- the input ends (producer's set_result / set_exception, or a holder of the input cancels it)
  | callback                  -- the owed `_delegate_resolved(input)` runs
deriving DecidableEq, Repr

/-- the wrapper is created over an input that is pending (`none`) or already finished (callback owed at once:
`add_done_callback` on a finished future runs it synchronously) -/
def init (i : Option Outcome) : St := { inner := i, owed := i.isSome, outer := none, rets := [], reached := 0 }

def step (s : St) : Act → Option St
  | .wcancel => some { s with rets := false :: s.rets }
  | .finish o => if s.inner.isSome then none else some { s with inner := some o, owed := true }
  | .callback =>
      match s.inner, s.owed with
      | some o, true => some { s with owed := false, outer := some (resolve cfg o).out }
      | _, _ => none

/-- the first `finish` of a run -/
def firstFinish : List Act → Option Outcome
  | [] => none
  | .finish o :: _ => some o
  | _ :: as => firstFinish as

end MoreExec.NoCancel
