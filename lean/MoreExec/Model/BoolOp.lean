/-
  Model of `BoolOperation` (futures/bool.py): `f_or` / `f_and`.

  All the decision logic is inside `handle_done`'s critical section (`with self.lock`), so concurrent
  completions are linearised by the order in which their critical sections run.  The model is therefore a fold
  of `handleDone` over that order; the decision itself is the kernel K5 regenerated from bool.py.
-/
import MoreExec.Gen.K5

namespace MoreExec.BoolOp
open MoreExec.Gen

inductive Outcome
  | ok (v : GVal)
  | err (e : GExc)
  | cancelled
deriving DecidableEq, Repr

inductive Kind | or | and
deriving DecidableEq, Repr

structure BSt where
  fs : List Nat                 -- keys of `self.fs` (inputs not yet handled)
  done : Bool := false
  out : Option Outcome := none  -- what has been written to `self.out`
  cancels : List Nat := []      -- cancel() requests issued, in order (an input id, or `outId` for the output itself)
deriving DecidableEq, Repr

def update (k : Kind) (fs : List Nat) (outId : Nat) (done0 : Bool) (f : GIn) : Bool × Bool × List Nat × Bool :=
  match k with
  | .or => K5.orUpdate fs outId done0 f
  | .and => K5.andUpdate fs outId done0 f

/-- One `handle_done(f)` critical section followed by the writes it decides. -/
def handleDone (k : Kind) (outId : Nat) (s : BSt) (f : GIn) : BSt :=
  if s.done then s
  else
    let fs' := s.fs.erase f.id
    let r := update k fs' outId s.done f
    let sr := r.1
    let se := r.2.1
    let cf := r.2.2.1
    let dn := r.2.2.2
    { fs := fs', done := dn,
      out := if sr then some (.ok f.result)
             else if se then f.exception.map .err
             else if cf.contains outId then some .cancelled
             else s.out,
      cancels := s.cancels ++ cf }

def initSt (ids : List Nat) : BSt := { fs := ids }

/-- the keys of the dict `self.fs` after `for f in fs: self.fs[f] = True`, in insertion order: one key per DISTINCT input
(`f_or(a, a, b)` registers and waits for a and b once each; K5 `registersOncePerKey` is the regenerated fact) -/
def keysOf (args : List Nat) : List Nat :=
  args.foldl (fun acc i => if i ∈ acc then acc else acc ++ [i]) []

/-- The outcome of a finished input as the combinators read it. -/
def outcomeOf (f : GIn) : Outcome :=
  if f.cancelled then .cancelled
  else match f.exception with
    | some e => .err e
    | none => .ok f.result

/-- finished with a true value -/
def truthyIn (f : GIn) : Bool := !f.cancelled && f.exception.isNone && f.result.truthy
/-- finished falsy: a false value, an exception or a cancellation -/
def falsyIn (f : GIn) : Bool := !truthyIn f

/-- `or` over the completion order: the first truthy input, otherwise the last one to finish. -/
def orSpec (ins : List GIn) : Option Outcome :=
  match ins.find? truthyIn with
  | some f => some (outcomeOf f)
  | none => ins.getLast?.map outcomeOf

/-- `and` over the completion order: the first falsy input, otherwise the last one to finish. -/
def andSpec (ins : List GIn) : Option Outcome :=
  match ins.find? falsyIn with
  | some f => some (outcomeOf f)
  | none => ins.getLast?.map outcomeOf

def spec : Kind → List GIn → Option Outcome
  | .or => orSpec
  | .and => andSpec

/-- the deciding predicate of each operation -/
def decides : Kind → GIn → Bool
  | .or => truthyIn
  | .and => falsyIn

end MoreExec.BoolOp
