/-
  Generic model of an executor's shutdown protocol (helpers.py `ShutdownHelper`, the `shutdown()` methods and the worker
  loops of retry.py / poll.py / throttle.py / timeout.py; `hasWorker = false` covers map / sync / flat_map / asyncio /
  cancel_on_shutdown, which have no thread of their own).

    subEnter t / subRefuse t / subExit t    submit(): `with self._shutdown.ensure_alive():` … body …
    sdFlip t w     shutdown(wait=w): `self._shutdown()` returned True (first caller; flag set under the gate)
    sdNoop t       `self._shutdown()` returned False (already shut down): nothing else happens
    sdSet t        wake the worker: `event.set()`            } in either order (retry/poll/timeout set first,
    sdDelegate t   `self._delegate.shutdown(wait, **kwargs)` } throttle shuts the delegate down first)
    sdJoined t     `thread.join()` returned (only with wait=True on an executor with a worker): needs the worker exited
    sdRet t        shutdown returns
    setE           any other producer sets the wake-up event
    wTop           worker, top of loop: reads the flag → exit, or goes to work
    wWork / wWait / wWake / wClear    … work, `event.wait(t)`, woken (event set or time-out), `event.clear()`
-/
import MoreExec.Base.Sys

namespace MoreExec.Shutdown

inductive WPc | top | working | wait | parked | clear | exited
deriving DecidableEq, Repr

structure Sd where
  tid : Nat
  wait : Bool
  didSet : Bool := false
  didDelegate : Bool := false
  joined : Bool := false
deriving DecidableEq, Repr

structure St where
  hasWorker : Bool := true
  gate : Option Nat := none
  flag : Bool := false
  evt : Bool := false
  wpc : WPc := .top
  shutter : Option Sd := none
  delegateCalls : List Bool := []        -- `wait` argument of every delegate.shutdown call
  returned : List (Nat × Bool) := []     -- shutdown calls that went through the full sequence and returned
  accepted : Nat := 0
  refused : Nat := 0
  execGauge : Int := 1                   -- `exec_inprogress`: +1 in the constructor, -1 inside the `self._shutdown()` guard
deriving Repr

inductive Act
  | subEnter (t : Nat) | subRefuse (t : Nat) | subExit (t : Nat)
  | sdFlip (t : Nat) (w : Bool) | sdNoop (t : Nat) | sdSet (t : Nat) | sdDelegate (t : Nat) | sdJoined (t : Nat) | sdRet (t : Nat)
  | setE | wTop | wWork | wWait | wWake | wClear
deriving DecidableEq, Repr

def needsJoin (s : St) (d : Sd) : Bool := s.hasWorker && d.wait

def step (s : St) : Act → Option St
  | .subEnter t => if s.gate = none ∧ s.flag = false then some { s with gate := some t, accepted := s.accepted + 1 } else none
  | .subRefuse _ => if s.gate = none ∧ s.flag = true then some { s with refused := s.refused + 1 } else none
  | .subExit t => if s.gate = some t then some { s with gate := none } else none
  | .sdFlip t w =>
      if s.gate = none ∧ s.flag = false then some { s with flag := true, shutter := some { tid := t, wait := w }, execGauge := s.execGauge - 1 } else none
  | .sdNoop _ => if s.gate = none ∧ s.flag = true then some s else none
  | .sdSet t =>
      match s.shutter with
      | some d => if d.tid = t ∧ d.didSet = false ∧ s.hasWorker then some { s with evt := true, shutter := some { d with didSet := true } } else none
      | none => none
  | .sdDelegate t =>
      match s.shutter with
      | some d =>
          if d.tid = t ∧ d.didDelegate = false then
            some { s with delegateCalls := s.delegateCalls ++ [d.wait], shutter := some { d with didDelegate := true } }
          else none
      | none => none
  | .sdJoined t =>
      match s.shutter with
      | some d =>
          if d.tid = t ∧ d.didSet ∧ d.didDelegate ∧ needsJoin s d ∧ d.joined = false ∧ s.wpc = .exited then
            some { s with shutter := some { d with joined := true } }
          else none
      | none => none
  | .sdRet t =>
      match s.shutter with
      | some d =>
          if d.tid = t ∧ (d.didSet ∨ s.hasWorker = false) ∧ d.didDelegate ∧ (needsJoin s d → d.joined) then
            some { s with shutter := none, returned := s.returned ++ [(t, d.wait)] }
          else none
      | none => none
  | .setE => some { s with evt := true }
  | .wTop =>
      if s.hasWorker ∧ s.wpc = .top then some { s with wpc := if s.flag then .exited else .working } else none
  | .wWork => if s.wpc = .working then some { s with wpc := .wait } else none
  | .wWait => if s.wpc = .wait then some { s with wpc := if s.evt then .clear else .parked } else none
  | .wWake => if s.wpc = .parked then some { s with wpc := .clear } else none
  | .wClear => if s.wpc = .clear then some { s with evt := false, wpc := .top } else none

def init (hasWorker : Bool) : St := { hasWorker := hasWorker }
abbrev run := runFrom step

/-- the worker's own next step, when it has one that does not depend on a time-out -/
def workerStep (s : St) : St :=
  match s.wpc with
  | .top => { s with wpc := if s.flag then .exited else .working }
  | .working => { s with wpc := .wait }
  | .wait => { s with wpc := if s.evt then .clear else .parked }
  | .parked => if s.evt then { s with wpc := .clear } else s
  | .clear => { s with evt := false, wpc := .top }
  | .exited => s

/-- `shutdown` propagation through a chain of n layers: each layer forwards only its FIRST shutdown call, with the same
arguments (this is what `C11_layer_forwards_first_only` proves of one layer). -/
def forward (calls : List Bool) : List Bool := calls.take 1

def chain : Nat → List Bool → List Bool
  | 0, calls => calls
  | n + 1, calls => chain n (forward calls)

end MoreExec.Shutdown
