/-
  Model of `MapFuture` / `FlatMapFuture` resolution (map.py, flat_map.py): `MapExecutor`, `FlatMapExecutor`,
  `f_map`, `f_flat_map` (and the identity-mapped futures of timeout / throttle / f_nocancel / f_proxy).

  `resolve` follows `_delegate_resolved` / `_delegate_failed` / `_on_mapped` line by line; user functions are
  environment: total functions returning what the call did (`FnRes`).  Values and exceptions are symbolic
  identifiers, so "the very object" is equality of identifiers.
-/
namespace MoreExec.MapFut

abbrev Val := Nat
abbrev Exc := Nat

/-- Terminal outcome of a future. -/
inductive Outcome
  | ok (v : Val)
  | err (e : Exc)
  | cancelled
deriving DecidableEq, Repr

/-- What one call of a user function did. -/
inductive FnRes
  | ret (v : Val)                      -- returned a plain (non-future) value
  | retFut (o : Outcome)               -- returned a future that ends with outcome `o`
  | raiseNew (e : Exc)                 -- raised a new exception
  | raiseSame                          -- re-raised the exception it was given (error_fn only)
deriving DecidableEq, Repr

/-- Outcome of the derived future.  `okFut` = resolved "successfully" with a Future object as its value
(what plain `map` does when the function returns a future); `typeError` = flat_map's TypeError for a non-future. -/
inductive Out
  | ok (v : Val)
  | okFut (o : Outcome)
  | err (e : Exc)
  | typeError
  | cancelled
deriving DecidableEq, Repr

structure Cfg where
  flat : Bool
  fn : Option (Val → FnRes)
  errFn : Option (Exc → FnRes)

structure Res where
  out : Out
  fnCalls : List Val := []     -- arguments `fn` was called with, in order
  errCalls : List Exc := []    -- arguments `error_fn` was called with, in order
deriving DecidableEq, Repr

/-- Second stage of flat_map: the future returned by the user function has finished with `o`.
(`_on_mapped` has cleared both mapping functions: `_map_fn = identity`, `_error_fn = None`.) -/
def flattened (o : Outcome) (r : Res) : Res :=
  match o with
  | .ok v => { r with out := .ok v }
  | .err e => { r with out := .err e }
  | .cancelled => { r with out := .cancelled }

/-- `_on_mapped(result)` for what a user function returned. -/
def onMapped (flat : Bool) (x : FnRes) (arg : Option Exc) (r : Res) : Res :=
  match x with
  | .ret v => if flat then { r with out := .typeError } else { r with out := .ok v }
  | .retFut o => if flat then flattened o r else { r with out := .okFut o }
  | .raiseNew e => { r with out := .err e }
  | .raiseSame => match arg with
      | some e => { r with out := .err e }       -- same object, copied from the delegate
      | none => { r with out := .typeError }     -- (fn cannot re-raise "its" exception: not reachable)

/-- `_delegate_resolved(delegate)` with the delegate's terminal outcome. -/
def resolve (c : Cfg) (d : Outcome) : Res :=
  match d with
  | .cancelled => { out := .cancelled }
  | .err e =>
      match c.errFn with
      | none => { out := .err e }
      | some ef => onMapped c.flat (ef e) (some e) { out := .cancelled, errCalls := [e] }
  | .ok v =>
      match c.fn with
      | none => if c.flat then { out := .ok v } else { out := .ok v }   -- identity / f_return then flatten
      | some f => onMapped c.flat (f v) none { out := .cancelled, fnCalls := [v] }

/-- The property's reading, written independently of the code's structure. -/
def spec (c : Cfg) (d : Outcome) : Out :=
  let lift : FnRes → Option Exc → Out := fun x arg =>
    match x, c.flat with
    | .raiseNew e, _ => .err e
    | .raiseSame, _ => (match arg with | some e => .err e | none => .typeError)
    | .ret v, false => .ok v
    | .ret _, true => .typeError
    | .retFut o, false => .okFut o
    | .retFut (.ok v), true => .ok v
    | .retFut (.err e), true => .err e
    | .retFut .cancelled, true => .cancelled
  match d with
  | .cancelled => .cancelled
  | .ok v => (match c.fn with | none => .ok v | some f => lift (f v) none)
  | .err e => (match c.errFn with | none => .err e | some ef => lift (ef e) (some e))

/-- composition of two value-mapping functions as user code would write it: `h` after `g` -/
def comp (h g : Val → FnRes) : Val → FnRes := fun v =>
  match g v with
  | .ret v' => h v'
  | other => other

/-- feed the output of one plain map stage into the next one -/
def asOutcome : Out → Option Outcome
  | .ok v => some (.ok v)
  | .err e => some (.err e)
  | .cancelled => some .cancelled
  | _ => none

end MoreExec.MapFut
