/-
  Model of `f_proxy` transparency (futures/proxy.py) and `f_nocancel` (futures/nocancel.py).

  Python's data model is a PARAMETER: `dunder name v args` is what `type(v).__name__(v, *args)` does — `none` when
  the type has no such method, `some .notImplemented` when it returns NotImplemented.  The operator protocol
  (`binop`, with the reflected fall-back) and the direct method call are defined on top of it, so theorems hold
  for every value of every type.  Which of the two each proxy method uses is the table K8 regenerated from
  proxy.py.
-/
import MoreExec.Gen.K8

namespace MoreExec.Proxy
open MoreExec.Gen

abbrev Val := Nat

inductive Res
  | val (v : Val)
  | raise (excType : String)
  | notImplemented
deriving DecidableEq, Repr

structure Py where
  /-- `type(v).__name__(v, *args)`; `none` = the attribute does not exist -/
  dunder : String → Val → List Val → Option Res
  /-- the reflected method of a binary operator's dunder (`__truediv__` ↦ `__rtruediv__`) -/
  reflected : String → String

/-- `a <op> b` where `<op>`'s method is `name`: full protocol with the reflected fall-back. -/
def binop (py : Py) (name : String) (a b : Val) : Res :=
  let tryReflected : Res :=
    match py.dunder (py.reflected name) b [a] with
    | some (.val r) => .val r
    | some (.raise e) => .raise e
    | _ => .raise "TypeError"
  match py.dunder name a [b] with
  | some (.val r) => .val r
  | some (.raise e) => .raise e
  | some .notImplemented => tryReflected
  | none => tryReflected

/-- `<builtin>(v)` implemented by dunder `name` (e.g. `math.trunc` ↦ `__trunc__`): a missing method is a TypeError. -/
def builtin1 (py : Py) (name : String) (v : Val) : Res :=
  match py.dunder name v [] with
  | some (.val r) => .val r
  | some (.raise e) => .raise e
  | _ => .raise "TypeError"

/-- What `proxy <op> other` evaluates to when the proxy's method is written `return self.__result <op> other`:
Python calls `type(proxy).__name__(proxy, other)`, which evaluates the operator expression on the result. -/
def proxyViaOperator (py : Py) (name : String) (result other : Val) : Res := binop py name result other

/-- … and when it is written `return self.__result.__name__(other)`: a direct attribute call, no fall-back.  A
`NotImplemented` return makes Python try `other`'s reflected method with the PROXY as operand, which foreign
types do not know: TypeError. -/
def proxyViaDirectDunder (py : Py) (name : String) (result other : Val) : Res :=
  match py.dunder name result [other] with
  | some (.val r) => .val r
  | some (.raise e) => .raise e
  | some .notImplemented => .raise "TypeError"
  | none => .raise "AttributeError"

def proxyBuiltinViaDirectDunder (py : Py) (name : String) (result : Val) : Res :=
  match py.dunder name result [] with
  | some (.val r) => .val r
  | some (.raise e) => .raise e
  | some .notImplemented => .val 0   -- whatever the method returned
  | none => .raise "AttributeError"

/-- table entries that are reachable as an operator / builtin in Python 3 (`__div__`, `__nonzero__` are Python 2) -/
def py3Forwarded (name : String) : Bool := name != "__div__" && name != "__nonzero__"

/-- a table entry is transparent by construction when it evaluates the operator / builtin on the result -/
def transparentKind : PKind → Bool
  | .binop _ | .unop _ | .builtin _ | .subscript _ | .contains | .getattr true => true
  | .const => true            -- `__bool__`: deliberately not forwarded (never blocks)
  | .selfCall _ => true
  | _ => false

end MoreExec.Proxy
