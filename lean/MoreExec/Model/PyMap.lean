/-
  A deep embedding of the few Python statement forms that `MapFuture._delegate_resolved`, `MapFuture._delegate_failed`,
  `MapFuture._on_mapped` and `FlatMapFuture._on_mapped` (map.py, flat_map.py) are written in, with an interpreter.

  `harness/pygen` (kernel K15) turns the *current* source of those four methods into closed terms of `Stmt` on every run — a purely
  syntactic walk of the Python AST (method calls on `self` are inlined as `block`s, following the class's MRO) — so the theorem
  `Proofs/MapFut/K15.lean: run_eq_resolve` compares what the code says now with the hand-written `MapFut.resolve`.

  What is written by hand here, i.e. MODELLED and not regenerated, is the meaning of the primitives those methods call:
    `copy_future_exception(delegate, self)`   self fails with the delegate's exception (unless already done)
    `copy_exception(self)`                    self fails with the exception being handled (unless already done)
    `try_set_result(self, x)`                 self succeeds with x (unless already done)
    `self._me_delegate_cancelled()`           self becomes cancelled (unless already done)
    `self._set_delegate(x)`                   the slot is overwritten; for a future x a done-callback is registered, which calls
                                              `_delegate_resolved` again once x has finished (`run` below: the second stage)
    `delegate.cancelled() / exception() / result()`, `self.done()`, `callable(getattr(x, "add_done_callback", None))`
  and of a user function call (`FnRes`).  `except Exception` catches everything the model can raise (the model has no
  BaseException-only outcomes; those are sampled by C01's correspondence).
-/
import MoreExec.Model.MapFut

namespace MoreExec.PyMap
open MoreExec.MapFut

/-- identity of an exception object: the one held by the delegate, or one created by the call that raised it -/
inductive ObjId
  | deleg | fresh
deriving DecidableEq, Repr

inductive ErrKind
  | typeError | attributeError
deriving DecidableEq, Repr

/-- run-time values -/
inductive V
  | none
  | bool (b : Bool)
  | val (v : Val)
  | fut (o : Outcome)                    -- a future object that will end (or has ended) with `o`
  | exc (id : ObjId) (e : Exc)           -- an exception object
  | pyErr (k : ErrKind)                  -- an exception created by the interpreter (TypeError(...), AttributeError)
  | self
  | deleg                                -- the `delegate` argument of `_delegate_resolved`
  | fnObj                                -- a function object (only ever compared with None)
deriving DecidableEq, Repr

/-- what is stored in `self._map_fn` -/
inductive FnSlot
  | user (f : Val → FnRes)
  | identity                             -- `identity` / `lambda x: x`
  | freturn                              -- `f_return`: a finished future holding the argument

inductive Attr
  | mapFn | errorFn | flattened
deriving DecidableEq, Repr

inductive Meth
  | cancelled | exception | result | done
deriving DecidableEq, Repr

inductive Expr
  | var (i : Nat)
  | none
  | true
  | lamId                                        -- `lambda x: x`
  | attr (a : Attr)                              -- `self.<a>`
  | meth (recv : Expr) (m : Meth)                -- `<recv>.<m>()`
  | callAttr (a : Attr) (arg : Expr)             -- `self.<a>(<arg>)`
  | isNone (e : Expr)
  | isNotNone (e : Expr)
  | is (a b : Expr)
  | not (e : Expr)
  | hasAddDoneCallback (e : Expr)                -- `callable(getattr(<e>, "add_done_callback", None))`
deriving Repr

inductive Prim
  | copyException                                -- `copy_exception(self)`
  | meDelegateCancelled                          -- `self._me_delegate_cancelled()`
deriving DecidableEq, Repr

inductive Stmt
  | skip
  | seq (a b : Stmt)
  | assign (x : Nat) (e : Expr)
  | setAttr (a : Attr) (e : Expr)
  | prim (p : Prim)
  | copyFutExc (e : Expr)                        -- `copy_future_exception(<e>, self)`
  | trySetResult (e : Expr)                      -- `try_set_result(self, <e>)`
  | setDelegate (e : Expr)                       -- `self._set_delegate(<e>)`
  | ret (e : Option Expr)
  | ite (c : Expr) (t f : Stmt)
  | tryExc (body : Stmt) (asVar : Option Nat) (handler : Stmt)   -- `try: … except Exception [as v]: …`
  | raiseTypeError
  | block (param : Nat) (arg : Expr) (body : Stmt) (dst : Option Nat)   -- inlined `dst = self.<method>(<arg>)`
deriving Repr

/-- terminal state of `self` as the interpreter sees it -/
inductive IOut
  | ok (v : Val)
  | okFut (o : Outcome)
  | okOther                                      -- resolved with something that is neither (None, a function …): not reachable
  | err (e : Exc)
  | pyErr (k : ErrKind)
  | cancelled
deriving DecidableEq, Repr

structure S where
  env : Nat → V := fun _ => .none
  dOutcome : Outcome                              -- outcome of the `delegate` argument
  mapFn : FnSlot
  errFn : Option (Exc → FnRes)
  flattened : Bool := false
  out : Option IOut := none
  slot : Option Outcome := none                   -- `self._delegate` when it is a future registered by `_set_delegate`
  handling : Option V := none                     -- the exception being handled (`sys.exc_info()`)
  sync : Bool := false                            -- futures returned by the user functions are ALREADY DONE when returned
  fnCalls : List Val := []
  errCalls : List Exc := []

/-- how a statement ended -/
inductive Ctl
  | normal
  | returned (v : V)
  | raised (x : V)
deriving DecidableEq, Repr

def S.set (s : S) (i : Nat) (v : V) : S := { s with env := fun j => if j = i then v else s.env j }

def truthy : V → Bool
  | .none => false
  | .bool b => b
  | _ => true

/-- the value or exception produced by what a user function did; `arg` is the object the function was given -/
def fnResult (r : FnRes) (arg : V) : Except V V :=
  match r with
  | .ret v => .ok (.val v)
  | .retFut o => .ok (.fut o)
  | .raiseNew e => .error (.exc .fresh e)
  | .raiseSame =>
      match arg with
      | .exc _ _ => .error arg
      | _ => .error (.pyErr .typeError)          -- `raise <non-exception>` is a TypeError in Python

def callSlot (s : S) (f : FnSlot) (arg : V) : S × Except V V :=
  match f, arg with
  | .identity, a => (s, .ok a)
  | .freturn, .val v => (s, .ok (.fut (.ok v)))
  | .freturn, _ => (s, .ok (.fut (.ok 0)))
  | .user f, .val v => ({ s with fnCalls := s.fnCalls ++ [v] }, fnResult (f v) arg)
  | .user _, _ => (s, .error (.pyErr .typeError))

def evalE : Expr → S → S × Except V V
  | .var i, s => (s, .ok (s.env i))
  | .none, s => (s, .ok .none)
  | .true, s => (s, .ok (.bool true))
  | .lamId, s => (s, .ok .fnObj)
  | .attr .flattened, s => (s, .ok (.bool s.flattened))
  | .attr .errorFn, s => (s, .ok (if s.errFn.isSome then .fnObj else .none))
  | .attr .mapFn, s => (s, .ok .fnObj)
  | .meth r m, s =>
      match evalE r s with
      | (s1, .error x) => (s1, .error x)
      | (s1, .ok .deleg) =>
          (match m, s1.dOutcome with
           | .cancelled, .cancelled => (s1, .ok (.bool true))
           | .cancelled, _ => (s1, .ok (.bool false))
           | .exception, .err e => (s1, .ok (.exc .deleg e))
           | .exception, .ok _ => (s1, .ok .none)
           | .result, .ok v => (s1, .ok (.val v))
           | .result, .err e => (s1, .error (.exc .deleg e))
           | .done, _ => (s1, .ok (.bool true))
           | _, .cancelled => (s1, .error (.pyErr .typeError)))        -- CancelledError: not reachable
      | (s1, .ok .self) =>
          (match m with
           | .done => (s1, .ok (.bool s1.out.isSome))
           | _ => (s1, .error (.pyErr .attributeError)))
      | (s1, .ok _) => (s1, .error (.pyErr .attributeError))
  | .callAttr a arg, s =>
      match evalE arg s with
      | (s1, .error x) => (s1, .error x)
      | (s1, .ok v) =>
          (match a with
           | .mapFn => callSlot s1 s1.mapFn v
           | .errorFn =>
               (match s1.errFn, v with
                | some ef, .exc _ e => ({ s1 with errCalls := s1.errCalls ++ [e] }, fnResult (ef e) v)
                | _, _ => (s1, .error (.pyErr .typeError)))
           | .flattened => (s1, .error (.pyErr .typeError)))
  | .isNone e, s =>
      match evalE e s with
      | (s1, .error x) => (s1, .error x)
      | (s1, .ok v) => (s1, .ok (.bool (decide (v = .none))))
  | .isNotNone e, s =>
      match evalE e s with
      | (s1, .error x) => (s1, .error x)
      | (s1, .ok v) => (s1, .ok (.bool (!decide (v = .none))))
  | .is a b, s =>
      match evalE a s with
      | (s1, .error x) => (s1, .error x)
      | (s1, .ok va) =>
          (match evalE b s1 with
           | (s2, .error x) => (s2, .error x)
           | (s2, .ok vb) =>
               -- object identity: exception objects are compared by their identity tag, never by their payload
               (match va, vb with
                | .exc i _, .exc j _ => (s2, .ok (.bool (decide (i = j))))
                | .none, .none => (s2, .ok (.bool true))
                | _, _ => (s2, .ok (.bool false))))
  | .not e, s =>
      match evalE e s with
      | (s1, .error x) => (s1, .error x)
      | (s1, .ok v) => (s1, .ok (.bool (!truthy v)))
  | .hasAddDoneCallback e, s =>
      match evalE e s with
      | (s1, .error x) => (s1, .error x)
      | (s1, .ok (.fut _)) => (s1, .ok (.bool true))
      | (s1, .ok _) => (s1, .ok (.bool false))

def setOut (s : S) (o : IOut) : S := if s.out.isSome then s else { s with out := some o }

def excOut : V → IOut
  | .exc _ e => .err e
  | .pyErr k => .pyErr k
  | _ => .okOther

def valOut : V → IOut
  | .val v => .ok v
  | .fut o => .okFut o
  | _ => .okOther

/-- the frame in which a call of `_delegate_resolved(delegate)` starts: parameter 0 = self, 1 = delegate (whose outcome is `o`) -/
def S.frame (s : S) (o : Outcome) : S :=
  { s with dOutcome := o, slot := none, handling := none, env := fun j => if j = 1 then .deleg else if j = 0 then .self else .none }

/-- `cb o s`: what `delegate.add_done_callback(self._delegate_resolved)` does when the delegate (outcome `o`) is already done: it
calls `_delegate_resolved(delegate)` at once, on this thread, inside `_set_delegate` - with `self` in whatever state the caller
has left it at that point. -/
def exec (cb : Outcome → S → S × Ctl) : Stmt → S → S × Ctl
  | .skip, s => (s, .normal)
  | .seq a b, s =>
      match exec cb a s with
      | (s1, .normal) => exec cb b s1
      | r => r
  | .assign x e, s =>
      match evalE e s with
      | (s1, .ok v) => (s1.set x v, .normal)
      | (s1, .error x) => (s1, .raised x)
  | .setAttr a e, s =>
      match evalE e s with
      | (s1, .error x) => (s1, .raised x)
      | (s1, .ok v) =>
          (match a, v with
           | .flattened, .bool b => ({ s1 with flattened := b }, .normal)
           | .mapFn, .fnObj => ({ s1 with mapFn := .identity }, .normal)     -- the only function ever stored: `lambda x: x`
           | .errorFn, .none => ({ s1 with errFn := none }, .normal)
           | _, _ => (s1, .raised (.pyErr .typeError)))
  | .copyFutExc e, s =>
      (match evalE e s with
       | (s1, .error x) => (s1, .raised x)
       | (s1, .ok .deleg) =>
           (match s1.dOutcome with
            | .err e => (setOut s1 (.err e), .normal)
            | _ => (setOut s1 .okOther, .normal))
       | (s1, .ok _) => (s1, .raised (.pyErr .attributeError)))
  | .prim .copyException, s =>
      (match s.handling with
       | some x => (setOut s (excOut x), .normal)
       | none => (setOut s .okOther, .normal))
  | .prim .meDelegateCancelled, s => (setOut s .cancelled, .normal)
  | .trySetResult e, s =>
      match evalE e s with
      | (s1, .ok v) => (setOut s1 (valOut v), .normal)
      | (s1, .error x) => (s1, .raised x)
  | .setDelegate e, s =>
      match evalE e s with
      | (s1, .error x) => (s1, .raised x)
      | (s1, .ok .none) => ({ s1 with slot := none }, .normal)
      | (s1, .ok (.fut o)) =>
          if s1.sync then
            (match cb o (s1.frame o) with
             | (s2, .raised x) => ({ s2 with env := s1.env, dOutcome := s1.dOutcome, handling := s1.handling }, .raised x)
             | (s2, _) => ({ s2 with env := s1.env, dOutcome := s1.dOutcome, handling := s1.handling }, .normal))
          else ({ s1 with slot := some o }, .normal)
      | (s1, .ok _) => (s1, .raised (.pyErr .attributeError))             -- `x.add_done_callback` on a non-future
  | .ret none, s => (s, .returned .none)
  | .ret (some e), s =>
      match evalE e s with
      | (s1, .ok v) => (s1, .returned v)
      | (s1, .error x) => (s1, .raised x)
  | .ite c t f, s =>
      match evalE c s with
      | (s1, .error x) => (s1, .raised x)
      | (s1, .ok v) => if truthy v then exec cb t s1 else exec cb f s1
  | .tryExc body asVar handler, s =>
      match exec cb body s with
      | (s1, .raised x) =>
          let s2 := match asVar with
            | some i => s1.set i x
            | none => s1
          let outer := s2.handling
          (match exec cb handler { s2 with handling := some x } with
           | (s3, c) => ({ s3 with handling := outer }, c))
      | r => r
  | .raiseTypeError, s => (s, .raised (.pyErr .typeError))
  | .block p arg body dst, s =>
      match evalE arg s with
      | (s1, .error x) => (s1, .raised x)
      | (s1, .ok v) =>
          (match exec cb body (s1.set p v) with
           | (s2, .raised x) => (s2, .raised x)
           | (s2, .returned r) => ((match dst with | some d => s2.set d r | none => s2), .normal)
           | (s2, .normal) => ((match dst with | some d => s2.set d .none | none => s2), .normal))

/-- the state in which the first `_delegate_resolved(delegate)` starts -/
def start (mapFn : FnSlot) (errFn : Option (Exc → FnRes)) (sync : Bool) (d : Outcome) : S :=
  ({ dOutcome := d, mapFn := mapFn, errFn := errFn, sync := sync } : S).frame d

/-- the call made for the future a user function returned (flat_map's second stage): it never registers a third future -/
def stage2 (prog : Stmt) (s : S) : S × Ctl :=
  exec (fun _ s' => (s', .raised (.pyErr .attributeError))) prog s

/-- One call of `_delegate_resolved`.  A future returned by the user function is either already done - then the second call
happens inside the first one's `_set_delegate` (`sync`) - or finishes later: then the done-callback registered by `_set_delegate`
makes the second call once it has (its outcome is then the `delegate`'s).  Returns the final state and whether an exception
escaped from either call. -/
def run (prog : Stmt) (mapFn : FnSlot) (errFn : Option (Exc → FnRes)) (sync : Bool) (d : Outcome) : S × Bool :=
  match exec (fun _ s' => stage2 prog s') prog (start mapFn errFn sync d) with
  | (s1, c1) =>
      let esc1 := match c1 with | .raised _ => true | _ => false
      match s1.out, s1.slot with
      | none, some o =>
          (match stage2 prog (s1.frame o) with
           | (s2, c2) => (s2, esc1 || (match c2 with | .raised _ => true | _ => false)))
      | _, _ => (s1, esc1)

def toOut : IOut → Option Out
  | .ok v => some (.ok v)
  | .okFut o => some (.okFut o)
  | .err e => some (.err e)
  | .pyErr .typeError => some .typeError
  | .cancelled => some .cancelled
  | _ => none

/-- the result in the vocabulary of `MapFut` (none: the future is still pending, or ended in a way `MapFut` has no name for) -/
def toRes (s : S) : Option Res :=
  match s.out with
  | some o => (toOut o).map (fun out => { out := out, fnCalls := s.fnCalls, errCalls := s.errCalls })
  | none => none

end MoreExec.PyMap
