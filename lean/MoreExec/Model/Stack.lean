/-
  Reference semantics of a stack of executors for ONE submission: "sequential evaluation of the same layers" (C01).

  A stack is a list of layers, OUTERMOST FIRST, over a base executor that runs the callable.  The callable's behaviour is
  a script: the outcome of its 1st, 2nd, 3rd… invocation (the last entry repeats).  User functions of the layers (map
  function, error function, flat-map function, poll function, retry policy) are parameters of the layer.  `eval` threads
  the number of callable invocations made so far, so the result says both WHAT the future resolves with and HOW OFTEN the
  callable ran.  Exceptions are identified by where they were raised (`Tag`): "the very object that was raised".

  The retry layer uses the regenerated kernel K1 (`ExceptionRetryPolicy.should_retry`) or a scripted policy.
-/
import MoreExec.Gen.K1

namespace MoreExec.Stack
open MoreExec.Gen

/-- where an exception object was created -/
inductive Tag
  | callable (attempt : Nat) (cls : Nat)   -- raised by the k-th invocation of the submitted callable, of class cls
  | mapfn (layer : Nat)                     -- raised by a map function (class E1)
  | errfn (layer : Nat)                     -- raised by an error function (class E2)
  | pollerr (layer : Nat)                   -- yielded by the poll function (class E1)
deriving DecidableEq, Repr

inductive Val
  | int (n : Int)
  | polled (v : Val)          -- what the scripted poll function yields: ('polled', delegate result)
deriving DecidableEq, Repr

inductive Outcome
  | ok (v : Val)
  | err (t : Tag)
deriving DecidableEq, Repr

/-- exception classes of the scenario world: 0 = E0, 1 = E1 (a subclass of E0), 2 = E2 -/
def clsOf : Tag → Nat
  | .callable _ c => c
  | .mapfn _ => 1
  | .errfn _ => 2
  | .pollerr _ => 1

def isInst (c base : Nat) : Bool := c == base || (c == 1 && base == 0)

inductive FnBeh | ident | raises                       -- map function: return its argument / raise
deriving DecidableEq, Repr
inductive ErrBeh | none | reraise | ret (n : Int) | raises   -- error function: absent / re-raise the same / return a value / raise another
deriving DecidableEq, Repr
inductive PollBeh | yields | fails                      -- poll function: yield_result(('polled', r)) / yield_exception(new E1)
deriving DecidableEq, Repr
inductive PolStep | retry | stop | raises               -- one entry of a scripted retry policy
deriving DecidableEq, Repr

inductive Policy
  | exc (p : GPolicy)                                   -- ExceptionRetryPolicy(max_attempts, …, exception_base)
  | script (steps : List PolStep)                       -- per attempt; the last entry repeats
deriving Repr

inductive Layer
  | map (li : Nat) (fn : FnBeh) (ef : ErrBeh)
  | flatMap (li : Nat) (fn : FnBeh) (ef : ErrBeh)
  | retry (pol : Policy)
  | poll (li : Nat) (pf : PollBeh)
  | throttle
  | timeout
  | cancelOnShutdown
deriving Repr

/-- outcome of the k-th (0-based) invocation of the callable -/
def scriptAt (script : List (Option Int × Nat)) (k : Nat) : Outcome :=
  match script[min k (script.length - 1)]? with
  | some (some v, _) => .ok (.int v)
  | some (none, cls) => .err (.callable k cls)
  | none => .ok (.int 0)

def polStepAt (steps : List PolStep) (attempt : Nat) : PolStep :=
  (steps[min (attempt - 1) (steps.length - 1)]?).getD .stop

/-- does the retry policy ask for another attempt after attempt number `attempt` ended with `o`? -/
def wantsRetry (pol : Policy) (attempt : Nat) (o : Outcome) : Bool :=
  match pol with
  | .exc p =>
      match o with
      | .ok _ => K1.shouldRetry p attempt none (fun _ => false)
      | .err t => K1.shouldRetry p attempt (some ⟨0, true⟩) (fun b => isInst (clsOf t) b)
  | .script steps =>
      match polStepAt steps attempt with
      | .retry => true
      | _ => false

def applyMap (li : Nat) (fn : FnBeh) (ef : ErrBeh) : Outcome → Outcome
  | .ok v => match fn with | .ident => .ok v | .raises => .err (.mapfn li)
  | .err t => match ef with
      | .none => .err t
      | .reraise => .err t
      | .ret n => .ok (.int n)
      | .raises => .err (.errfn li)

/-- attempts of a retry layer: `inner k` performs one attempt starting at invocation count k -/
def retryLoop (pol : Policy) (inner : Nat → Outcome × Nat) : Nat → Nat → Nat → Outcome × Nat
  | 0, _, k => inner k
  | fuel + 1, attempt, k =>
      let r := inner k
      if wantsRetry pol attempt r.1 then retryLoop pol inner fuel (attempt + 1) r.2 else r

/-- sequential evaluation: (outcome, number of callable invocations so far) -/
def eval (script : List (Option Int × Nat)) : List Layer → Nat → Outcome × Nat
  | [], k => (scriptAt script k, k + 1)
  | .map li fn ef :: rest, k => let r := eval script rest k; (applyMap li fn ef r.1, r.2)
  | .flatMap li fn ef :: rest, k => let r := eval script rest k; (applyMap li fn ef r.1, r.2)
  | .retry pol :: rest, k => retryLoop pol (eval script rest) 16 1 k
  | .poll li pf :: rest, k =>
      let r := eval script rest k
      (match r.1 with
        | .ok v => (match pf with | .yields => .ok (.polled v) | .fails => .err (.pollerr li))
        | .err t => .err t, r.2)
  | .throttle :: rest, k => eval script rest k
  | .timeout :: rest, k => eval script rest k
  | .cancelOnShutdown :: rest, k => eval script rest k

/-- the exceptions a stack can legitimately deliver: raised by the callable or by a user function of one of its layers -/
def Legit (layers : List Layer) : Tag → Prop
  | .callable _ _ => True
  | .mapfn li => ∃ fn ef, Layer.map li fn ef ∈ layers ∨ Layer.flatMap li fn ef ∈ layers
  | .errfn li => ∃ fn ef, Layer.map li fn ef ∈ layers ∨ Layer.flatMap li fn ef ∈ layers
  | .pollerr li => ∃ pf, Layer.poll li pf ∈ layers

end MoreExec.Stack
