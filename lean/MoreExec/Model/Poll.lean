/-
  Model of `PollExecutor` (more_executors/_impl/poll.py) at the granularity of its lock-protected sections.

  `X` = `PollExecutor._lock`.  One action = one section / event operation / boundary call:
    register f r     `_register_poll` (inside the delegate's completing call, delegate succeeded with r):
                     append (f, descriptor r); clear the delegate link                                      [X]
    setE             `_poll_event.set()` — last operation of `_register_poll` (still inside X), or the body of `notify()`
                     (`notifyA` marks the call; the unlocked reader `_run_cancel_fn` can see the descriptor before the set)
    yieldA f o       a `yield_result` / `yield_exception` reaches `PollFuture.set_*`: first one wins, later ones are ignored
    cancelA f ans    `PollFuture.cancel()` past the delegate: ans = none — cancel_fn not consulted;
                     some (some b) — consulted with the descriptor's result, answered b; some none — it raised
    dereg f          `_deregister_poll`, from the future's own first done-callback                          [X]
    resolveRet f     the resolving call (yield or cancel) returns to its caller
    snapshot         poll thread, `_run_poll_fn`: copy the descriptor list                                  [X]
    pollRet          the poll function returned
    pollRaise e      the poll function raised e: every descriptor of the snapshot gets `yield_exception(e)`
    failNext         … one of those yields
    notifyA          `notify()`: `_poll_event.set()`
    waitE / wake / clearE   poll thread: `event.wait(interval)`, woken, `event.clear()`
-/
import MoreExec.Base.Sys

namespace MoreExec.Poll

inductive Out
  | val (v : Nat)
  | exc (e : Nat)
  | cancelled
deriving DecidableEq, Repr

inductive WPc
  | top                         -- about to take the snapshot
  | polling                     -- inside the poll function
  | failing (rest : List Nat) (e : Nat)   -- poll function raised: yielding the exception to the snapshot
  | wait
  | parked
  | clear
deriving DecidableEq, Repr

structure St where
  hasCancelFn : Bool := false
  descs : List (Nat × Nat) := []        -- `_poll_descriptors`: (future, delegate result)
  done : List (Nat × Out) := []         -- terminal futures with their outcome
  flag : Bool := false
  wpc : WPc := .top
  snap : List (Nat × Nat) := []         -- the poll thread's local snapshot
  newSince : Bool := false              -- ghost: a registration / notify happened since the last snapshot was taken
  pendingSet : Nat := 0                 -- producers that have changed state and not yet called `_poll_event.set()`
  -- ghosts
  regPairs : List (Nat × Nat) := []     -- log of registrations
  deregd : List Nat := []               -- futures deregistered
  resolvedRet : List Nat := []          -- futures whose resolving call has returned
  yields : List (Nat × Out) := []       -- log of yields reaching a future
  polls : List (List (Nat × Nat)) := [] -- log of snapshots handed to the poll function
  asks : List (Nat × Nat) := []         -- log of cancel_fn consultations: (future, argument)
  delCancelled : List Nat := []         -- futures cancelled while their delegate was still linked (the delegate is cancelled: it never registers)
deriving Repr

inductive Act
  | register (f r : Nat)
  | yieldA (f : Nat) (o : Out)
  | cancelA (f : Nat) (ans : Option (Option Bool))
  | dereg (f : Nat)
  | resolveRet (f : Nat)
  | snapshot
  | pollRet
  | pollRaise (e : Nat)
  | failNext
  | notifyA
  | setE
  | waitE
  | wake
  | clearE
deriving DecidableEq, Repr

def isDone (s : St) (f : Nat) : Bool := s.done.any (fun p => p.1 == f)

/-- `PollFuture.set_result` / `set_exception_info`: ignored when already done -/
def resolve (s : St) (f : Nat) (o : Out) : St :=
  if isDone s f then s else { s with done := s.done ++ [(f, o)] }

def step (s : St) : Act → Option St
  | .register f r =>
      if s.regPairs.any (fun p => p.1 == f) ∨ f ∈ s.delCancelled then none else
      some { s with descs := s.descs ++ [(f, r)], regPairs := s.regPairs ++ [(f, r)], newSince := true, pendingSet := s.pendingSet + 1 }
  | .yieldA f o =>
      -- yields travel through descriptors, which exist only for registered futures
      if o = .cancelled ∨ ¬ (s.regPairs.any (fun p => p.1 == f)) then none else
      some { resolve s f o with yields := s.yields ++ [(f, o)] }
  | .cancelA f ans =>
      if isDone s f then none else
      match ans with
      | none =>
          -- not consulted: no cancel function, or the future is not (or no longer / not yet) in the polling stage
          if s.hasCancelFn = false ∨ (s.descs.all (fun p => p.1 != f)) then
            -- before registration the cancel only goes ahead when `delegate.cancel()` succeeded
            let s1 := if s.regPairs.any (fun p => p.1 == f) then s else { s with delCancelled := s.delCancelled ++ [f] }
            some (resolve s1 f .cancelled)
          else none
      | some a =>
          match s.descs.lookup f with
          | some r =>
              if s.hasCancelFn then
                let s1 := { s with asks := s.asks ++ [(f, r)] }
                if a = some true then some (resolve s1 f .cancelled) else some s1
              else none
          | none => none
  | .dereg f =>
      if isDone s f ∧ f ∉ s.deregd then
        some { s with descs := s.descs.filter (fun p => p.1 != f), deregd := s.deregd ++ [f] }
      else none
  | .resolveRet f =>
      if f ∈ s.deregd ∧ f ∉ s.resolvedRet then some { s with resolvedRet := s.resolvedRet ++ [f] } else none
  | .snapshot =>
      if s.wpc = .top then some { s with snap := s.descs, polls := s.polls ++ [s.descs], wpc := .polling, newSince := false }
      else none
  | .pollRet => if s.wpc = .polling then some { s with wpc := .wait } else none
  | .pollRaise e => if s.wpc = .polling then some { s with wpc := .failing (s.snap.map (·.1)) e } else none
  | .failNext =>
      match s.wpc with
      | .failing (f :: rest) e => some { resolve s f (.exc e) with yields := s.yields ++ [(f, .exc e)], wpc := .failing rest e }
      | .failing [] _ => some { s with wpc := .wait }
      | _ => none
  | .notifyA => some { s with newSince := true, pendingSet := s.pendingSet + 1 }
  | .setE => some { s with flag := true, pendingSet := s.pendingSet - 1 }
  | .waitE => if s.wpc = .wait then some { s with wpc := if s.flag then .clear else .parked } else none
  | .wake => if s.wpc = .parked then some { s with wpc := .clear } else none
  | .clearE => if s.wpc = .clear then some { s with flag := false, wpc := .top } else none

def init (hasCancelFn : Bool) : St := { hasCancelFn := hasCancelFn }

abbrev run := runFrom step

end MoreExec.Poll
