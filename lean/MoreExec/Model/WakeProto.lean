/-
  The worker wake-up protocol shared by retry.py, poll.py, throttle.py and timeout.py:
      producers:  change state, THEN `event.set()`          worker:  scan state, `event.wait(timeout)`, `event.clear()`, re-scan
  Work is a list of items with due times (a retry job and its `when`, a timeout job and its deadline; due = 0 for
  work that is ready at once: a queued throttle job, a newly registered poll descriptor).

    add i d      a producer adds item i with due time d (under the executor's lock)      setE   … and later sets the event
    remove i     an item is withdrawn (cancelled) or processed by the worker
    scan         the worker scans under the lock: processes what is due (`remove`s follow) and computes its wait:
                 none when nothing is pending, else (earliest due time − now)
    waitE        `event.wait(timeout)`: returns at once when the event is set, else parks until set or time-out
    wake         the parked worker resumes (event set, or the time-out expired: `now ≥ wake-up time`)
    clearE       `event.clear()`, then back to `scan`
    tick t       virtual time advances to t: only while nothing is runnable, i.e. never beyond the wake-up time of a parked worker
-/
import MoreExec.Base.Sys

namespace MoreExec.WakeProto

inductive WPc
  | scan
  | wait (wakeAt : Option Nat)      -- about to call wait with an absolute wake-up time
  | parked (wakeAt : Option Nat)
  | clear
deriving DecidableEq, Repr

structure St where
  now : Nat := 0
  items : List (Nat × Nat) := []     -- (item, due time)
  flag : Bool := false
  pendingSet : Nat := 0
  wpc : WPc := .scan
deriving Repr

inductive Act
  | add (i d : Nat) | setE | remove (i : Nat) | scan | waitE | wake | clearE | tick (t : Nat)
deriving DecidableEq, Repr

def minDue : List (Nat × Nat) → Option Nat
  | [] => none
  | (_, d) :: rest => match minDue rest with | none => some d | some m => some (min d m)

/-- may virtual time advance to t?  only while the worker is parked, and not beyond its wake-up time -/
def tickOk (s : St) (t : Nat) : Bool :=
  match s.wpc with
  | .parked (some w) => decide (t ≤ max w s.now)
  | .parked none => true
  | _ => false

def timedOut (s : St) (w : Option Nat) : Bool :=
  match w with
  | some t => decide (t ≤ s.now)
  | none => false

def step (s : St) : Act → Option St
  | .add i d => some { s with items := s.items ++ [(i, d)], pendingSet := s.pendingSet + 1 }
  | .setE => some { s with flag := true, pendingSet := s.pendingSet - 1 }
  | .remove i => some { s with items := s.items.filter (fun p => p.1 != i) }
  | .scan =>
      if s.wpc = .scan then
        -- items that are due are handled in this iteration (they stay listed until their `remove`); the wait is computed
        -- from the earliest due time; if something is already due the worker does not wait but loops (wake-up time = now)
        some { s with wpc := .wait (minDue s.items) }
      else none
  | .waitE =>
      match s.wpc with
      | .wait w => some { s with wpc := if s.flag then .clear else .parked w }
      | _ => none
  | .wake =>
      match s.wpc with
      | .parked w => if s.flag || timedOut s w then some { s with wpc := .clear } else none
      | _ => none
  | .clearE => if s.wpc = .clear then some { s with flag := false, wpc := .scan } else none
  | .tick t =>
      if s.now ≤ t ∧ tickOk s t = true then some { s with now := t } else none

def init : St := {}
abbrev run := runFrom step

end MoreExec.WakeProto
