/-
  Model of `TimeoutExecutor` (more_executors/_impl/timeout.py) over an arbitrary delegate.

  Granularity (DESIGN.md section 3): one step = at most one globally visible operation.  Each thread runs a
  *program*: a list of pending micro-operations (a defunctionalised continuation).  A step pops the head
  operation, executes it, and may push further operations in front.  Operations are either observable
  (they must coincide with an event of the real execution's log) or internal (`tau`: an unobservable
  access to shared state, e.g. the append to `_jobs` under `_jobs_lock`).

  The futures handed out are `MapFuture`s; their internals are abstracted to three bits per submission
  (`done`, `linked` = `_delegate` still set, `hasCb` = `_on_future_done` installed) plus the delegate's
  state; the full `_Future` protocol is the subject of Model/MeFuture.lean (C02).

  Atomicity assumptions (validated by the line-level correspondence runs):
  AT-T1  `_jobs` is read/written only under `_jobs_lock`: the append and the partition are single steps.
  AT-T2  `ShutdownHelper`: test-and-set of `is_shutdown` under its lock is one step; `ensure_alive` holds
         the gate for the whole of `submit_timeout`.
  AT-T3  a stdlib `Future` method is one atomic step (AF1).
-/
import MoreExec.Base.Sys
import MoreExec.Gen.K3

namespace MoreExec.Timeout

abbrev Tid := Nat
abbrev Fid := Nat
abbrev Time := Nat

/-- Where the timeout thread is with respect to its wake-up event: nothing computed yet in this iteration,
wait time computed (relative time-out, absolute wake-up time), or parked in `Event.wait`. -/
inductive WSt
  | none
  | computed (wait : Option Nat) (wake : Option Nat)
  | parked (wake : Option Nat)
deriving DecidableEq, Repr, Hashable

structure Job where
  fut : Fid
  deadline : Time
deriving DecidableEq, Repr, Hashable

inductive DState | pending | running | cancelled | finished
deriving DecidableEq, Repr, Hashable

/-- Per-submission record: delegate future `d_k` and outer `MapFuture` `f_k` share the index. -/
structure Fut where
  dstate : DState := .pending
  dCb : Bool := false        -- `_delegate_resolved` registered on the delegate
  created : Bool := false    -- MapFuture object exists
  linked : Bool := false     -- f._delegate is d
  done : Bool := false       -- f is done (finished or cancelled)
  fcancelled : Bool := false -- f is cancelled
  hasCb : Bool := false      -- `_on_future_done` installed on f
deriving DecidableEq, Repr, Hashable

/-- Events of the real execution's log, after projection to this component's alphabet. -/
inductive Ev
  | callSubmit (T : Time) | retSubmit (f : Fid) | raiseSubmit
  | dsubmit (d : Fid) | dsubmitRefused
  | daddcbIn (d : Fid) (done : Bool) | daddcbOut (d : Fid)
  | dcancelIn (d : Fid) | dcancelOut (d : Fid) (r : Bool)
  | drun (d : Fid) | dskip (d : Fid) | dcomplete (d : Fid) | dcompleted (d : Fid)
  | setE | clearE | waitE (timeout : Option Time) (flag : Bool) | parkE (timeout : Option Time) | wokeE (flag : Bool)
  | idle (t : Time) | tick (t : Time)
  | callCancel (f : Fid) | retCancel (f : Fid) (r : Bool)
  | callShutdown (wait : Bool) | retShutdown | dshutdown | dshutdownRet | join | parkJoin | joined
  | wstart | texit
deriving DecidableEq, Repr, Hashable

/-- Micro-operations.  `o*` are observable, `t*` internal. -/
inductive Op
  -- submit_timeout
  | enterGate                      -- tau: acquire gate, test flag
  | oRaiseSubmit
  | oDsubmit (T : Time)
  | oAddcbIn (k : Fid) | oAddcbOut (k : Fid)
  | tAddOnDone (k : Fid)           -- tau: future.add_done_callback(_on_future_done)
  | tClock (k : Fid) (T : Time)    -- tau: deadline := monotonic() + T
  | tAppend (k : Fid) (dl : Time)  -- tau: append Job(f, d, deadline) under _jobs_lock
  | oSet
  | tRelGate
  | oRetSubmit (k : Fid)
  -- the delegate's done-callback `_delegate_resolved`
  | tUnlink (k : Fid)              -- `_set_delegate(None)`
  | tResolve (k : Fid)             -- set_result / set_exception on f (no-op when the delegate was cancelled)
  -- cancel of f (client or worker)
  | tCancelCheck (k : Fid) (client : Bool)   -- under `_me_lock`: cancelled? done? delegate?
  | oDcancelIn (k : Fid) (client : Bool) | oDcancelOut (k : Fid) (client : Bool)
  | tCancelled (k : Fid)           -- super().cancel() succeeded: f done, callbacks run
  | oRetCancel (k : Fid) (r : Bool)
  -- delegate worker
  | oDcomplete (k : Fid) | oDcompleted (k : Fid)
  -- timeout worker loop
  | tFlags | tPartition | tCancelNext
  | oWait | oParkOrTick | oWoke | oClear | oExit
  -- shutdown
  | tFlip (wait : Bool) | oDshutdown | oDshutdownRet | oJoin | oJoined | oRetShutdown
deriving DecidableEq, Repr, Hashable

structure St where
  now : Time := 0
  jobs : List Job := []
  flag : Bool := false
  shut : Bool := false
  gate : Option Tid := none
  futs : List Fut := []            -- index = submission number
  progs : List (Tid × List Op) := []
  worker : Option Tid := none
  wst : WSt := .none               -- worker-local: wait computed / parked (with absolute wake-up time)
  wOverdue : List Job := []        -- worker-local: overdue jobs still to be cancelled in this iteration
  wexited : Bool := false
  joiner : Option Tid := none      -- thread parked in join
  -- ghosts (never read by enabling conditions; used by theorems)
  attempts : List (Fid × Time × Time) := []  -- cancel() attempts made by the worker: (future, its deadline, time of attempt)
  deadlines : List (Fid × Time) := []      -- every job ever appended: (future, deadline)
  jumps : List (Time × Time) := []         -- idle jumps (from, to)
deriving DecidableEq, Repr, Hashable

inductive Lbl | tau | ev (e : Ev)
deriving DecidableEq, Repr

structure Act where
  tid : Tid
  lbl : Lbl
deriving DecidableEq, Repr

def getProg (s : St) (t : Tid) : List Op :=
  match s.progs.lookup t with
  | some p => p
  | none => []

def setProg (s : St) (t : Tid) (p : List Op) : St :=
  { s with progs := (t, p) :: s.progs.filter (fun x => x.1 != t) }

def getFut (s : St) (k : Fid) : Fut := s.futs.getD k {}

def setFut (s : St) (k : Fid) (f : Fut) : St := { s with futs := s.futs.set k f }

def submitProg (T : Time) : List Op := [.enterGate, .oDsubmit T]

/-- The chain run by whoever triggers the delegate's done callbacks. -/
def resolvedChain (k : Fid) : List Op := [.tUnlink k, .tResolve k]

/-- What the regenerated kernel sees of a job: the future's `done()` at this instant and the deadline. -/
def toG (s : St) (j : Job) : Gen.GJob := ⟨⟨j.fut, (getFut s j.fut).done⟩, j.deadline⟩
def ofG (g : Gen.GJob) : Job := ⟨g.future.id, g.deadline⟩

/-- `_partition_jobs`, through the kernel regenerated from timeout.py (K3). -/
def overdue (s : St) : List Job := ((Gen.K3.partitionJobs (s.jobs.map (toG s)) s.now).2).map ofG
def pendingJobs (s : St) : List Job := ((Gen.K3.partitionJobs (s.jobs.map (toG s)) s.now).1).map ofG

/-- The wait-time expression of `_job_loop_iter`, through K3: `max(earliest - now, 0)`, `None` when empty. -/
def waitTime (now : Time) (pending : List Job) : Option Time :=
  Gen.K3.waitTime (pending.map (fun j => ⟨⟨j.fut, false⟩, j.deadline⟩)) now

/-- The parked worker's time-out has expired. -/
def wakeDue (s : St) : Bool :=
  match s.wst with
  | .parked (some w) => decide (w ≤ s.now)
  | _ => false

/-- A jump to `tm` does not pass the parked worker's wake-up time. -/
def jumpOk (s : St) (tm : Time) : Bool :=
  match s.wst with
  | .parked (some w) => decide (tm ≤ w) && !s.flag
  | .parked none => !s.flag          -- a parked worker whose event is set is runnable: no idle jump
  | _ => true

/-- Start of an activity by a thread whose program is empty. -/
def startOp (s : St) (t : Tid) (e : Ev) : Option St :=
  match e with
  | .callSubmit T => some (setProg s t (submitProg T))
  | .callCancel k =>
      if k < s.futs.length then some (setProg s t [.tCancelCheck k true]) else none
  | .callShutdown w => some (setProg s t [.tFlip w])
  | .drun k =>
      if (getFut s k).dstate = .pending ∧ k < s.futs.length then
        some (setProg (setFut s k { getFut s k with dstate := .running }) t [.oDcomplete k])
      else none
  | .dskip k => if (getFut s k).dstate = .cancelled then some s else none
  | .wstart =>
      if s.worker = none then some (setProg { s with worker := some t } t [.tFlags]) else none
  | _ => none

/-- Execute the head operation `op` of thread `t` (rest of its program: `rest`) under label `l`. -/
def execOp (s : St) (t : Tid) (op : Op) (rest : List Op) (l : Lbl) : Option St :=
  match op, l with
  | .enterGate, .tau =>
      if s.gate.isSome then none
      else if s.shut then some (setProg s t (.oRaiseSubmit :: []))
      else some (setProg { s with gate := some t } t rest)
  | .oRaiseSubmit, .ev .raiseSubmit => some (setProg s t rest)
  | .oDsubmit T, .ev (.dsubmit d) =>
      if d = s.futs.length then
        some (setProg { s with futs := s.futs ++ [{ created := true, linked := true }] } t
          ([.oAddcbIn d, .oAddcbOut d, .tAddOnDone d, .tClock d T, .tRelGate, .oRetSubmit d] ++ rest))
      else none
  | .oDsubmit _, .ev .dsubmitRefused => some (setProg s t (.tRelGate :: .oRaiseSubmit :: rest))
  | .oAddcbIn k, .ev (.daddcbIn d dn) =>
      let f := getFut s k
      let isDone := f.dstate = .finished ∨ f.dstate = .cancelled
      if d = k ∧ dn = decide isDone then
        if isDone then some (setProg s t (resolvedChain k ++ rest))
        else some (setProg (setFut s k { f with dCb := true }) t rest)
      else none
  | .oAddcbIn k, .ev (.drun d) =>
      -- an inline delegate (SyncExecutor-like) runs the callable inside submit()
      let f := getFut s k
      if d = k ∧ f.dstate = .pending then
        some (setProg (setFut s k { f with dstate := .running }) t (.oDcomplete k :: .oAddcbIn k :: rest))
      else none
  | .oAddcbOut k, .ev (.daddcbOut d) => if d = k then some (setProg s t rest) else none
  | .tAddOnDone k, .tau =>
      let f := getFut s k
      if f.done then some (setProg s t (.oSet :: rest))
      else some (setProg (setFut s k { f with hasCb := true }) t rest)
  | .tClock k T, .tau => some (setProg s t (.tAppend k (s.now + T) :: rest))
  | .tAppend k dl, .tau =>
      -- the append under `_jobs_lock`; the very next thing this thread does is `_jobs_write.set()`
      -- (straight-line code: one append per submission; `deadlines` is the ghost record of all appends)
      if (s.deadlines.map (·.1)).contains k then none else
      some (setProg { s with jobs := s.jobs ++ [{ fut := k, deadline := dl }], deadlines := s.deadlines ++ [(k, dl)] } t (.oSet :: rest))
  | .oSet, .ev .setE => some (setProg { s with flag := true } t rest)
  | .tRelGate, .tau => if s.gate = some t then some (setProg { s with gate := none } t rest) else none
  | .oRetSubmit k, .ev (.retSubmit f) => if f = k then some (setProg s t rest) else none
  | .tUnlink k, .tau => some (setProg (setFut s k { getFut s k with linked := false }) t rest)
  | .tResolve k, .tau =>
      let f := getFut s k
      if f.dstate = .cancelled ∨ f.done then some (setProg s t rest)
      else some (setProg (setFut s k { f with done := true }) t (if f.hasCb then .oSet :: rest else rest))
  | .tCancelCheck k client, .tau =>
      let f := getFut s k
      if f.done then
        -- `cancelled()` → True, finished → False
        some (setProg s t (if client then .oRetCancel k f.fcancelled :: rest else rest))
      else if f.linked then some (setProg s t (.oDcancelIn k client :: rest))
      else some (setProg s t (if client then .oRetCancel k false :: rest else rest))
  | .oDcancelIn k client, .ev (.dcancelIn d) =>
      let f := getFut s k
      if d = k then
        if f.dstate = .pending then
          -- Future.cancel succeeds and runs the delegate's callbacks inline
          some (setProg (setFut s k { f with dstate := .cancelled }) t
            ((if f.dCb then [.tUnlink k] else []) ++ .oDcancelOut k client :: rest))
        else some (setProg s t (.oDcancelOut k client :: rest))
      else none
  | .oDcancelOut k client, .ev (.dcancelOut d r) =>
      let f := getFut s k
      if d = k ∧ r = decide (f.dstate = .cancelled) then
        if r then some (setProg s t (.tCancelled k :: (if client then .oRetCancel k true :: rest else rest)))
        else some (setProg s t (if client then .oRetCancel k false :: rest else rest))
      else none
  | .tCancelled k, .tau =>
      let f := getFut s k
      some (setProg (setFut s k { f with done := true, fcancelled := true, linked := false }) t (if f.hasCb then .oSet :: rest else rest))
  | .oRetCancel k r, .ev (.retCancel f r') => if f = k ∧ r = r' then some (setProg s t rest) else none
  | .oDcomplete k, .ev (.dcomplete d) =>
      let f := getFut s k
      if d = k ∧ f.dstate = .running then
        some (setProg (setFut s k { f with dstate := .finished }) t
          ((if f.dCb then resolvedChain k else []) ++ .oDcompleted k :: rest))
      else none
  | .oDcompleted k, .ev (.dcompleted d) => if d = k then some (setProg s t rest) else none
  -- worker loop
  | .tFlags, .tau =>
      if s.worker ≠ some t then none else
      if s.shut then some (setProg s t [.oExit]) else some (setProg s t [.tPartition])
  | .tPartition, .tau =>
      if s.worker ≠ some t then none else
      some (setProg { s with jobs := pendingJobs s, wOverdue := overdue s } t [.tCancelNext])
  | .tCancelNext, .tau =>
      if s.worker ≠ some t then none else
      match s.wOverdue with
      | [] =>
        -- `pending` is the very list object that was stored into `_jobs` (aliasing): jobs appended since the
        -- partition are seen by the wait-time computation, which reads the list without the lock
        some (setProg { s with wst := .computed (waitTime s.now s.jobs) ((waitTime s.now s.jobs).map (fun x => s.now + x)) } t [.oWait])
      | j :: js =>
        some (setProg { s with wOverdue := js, attempts := s.attempts ++ [(j.fut, j.deadline, s.now)] } t
          [.tCancelCheck j.fut false, .tCancelNext])
  | .oWait, .ev (.waitE d' fl) =>
      if s.worker ≠ some t then none else
      match s.wst with
      | .computed d _ =>
        if d = d' ∧ fl = s.flag then
          if s.flag then some (setProg s t [.oClear]) else some (setProg s t [.oParkOrTick])
        else none
      | _ => none
  | .oParkOrTick, .ev (.tick tm) =>
      if s.worker ≠ some t then none else
      match s.wst with
      | .computed d _ =>
        if d = some 0 ∧ tm = s.now + 1 then some (setProg { s with now := tm, wst := .none } t [.oClear]) else none
      | _ => none
  | .oParkOrTick, .ev (.parkE d') =>
      if s.worker ≠ some t then none else
      match s.wst with
      | .computed d wk =>
        if d = d' ∧ d ≠ some 0 then some (setProg { s with wst := .parked wk } t [.oWoke]) else none
      | _ => none
  | .oWoke, .ev (.wokeE fl) =>
      if s.worker ≠ some t then none else
      if fl = s.flag ∧ (s.flag ∨ wakeDue s) then
        some (setProg { s with wst := .none } t [.oClear])
      else none
  | .oClear, .ev .clearE =>
      if s.worker ≠ some t then none else some (setProg { s with flag := false, wst := .none } t [.tFlags])
  | .oExit, .ev .texit =>
      if s.worker ≠ some t then none else some (setProg { s with wexited := true } t [])
  -- shutdown
  | .tFlip w, .tau =>
      if s.gate.isSome then none
      else if s.shut then some (setProg s t [.oRetShutdown])
      else some (setProg { s with shut := true } t
        ([.oSet, .oDshutdown, .oDshutdownRet] ++ (if w then [.oJoin] else []) ++ [.oRetShutdown]))
  | .oDshutdown, .ev .dshutdown => some (setProg s t rest)
  | .oDshutdownRet, .ev .dshutdownRet => some (setProg s t rest)
  | .oJoin, .ev .join =>
      if s.wexited then some (setProg s t rest) else some (setProg { s with joiner := some t } t (.oJoined :: rest))
  | .oJoined, .ev .joined => if s.wexited then some (setProg { s with joiner := none } t rest) else none
  | .oRetShutdown, .ev .retShutdown => some (setProg s t rest)
  | _, _ => none

/-- Is the whole system quiescent (no thread has a pending internal or owed operation other than the
parked worker / joiner)?  Guard of the idle jump. -/
def blockedOp (s : St) : Op → Bool
  | .oDcomplete _ => true                 -- the callable is running: environment
  | .oDshutdownRet => true                -- inside the delegate's shutdown(wait): environment
  | .oWoke => !s.flag                     -- parked in Event.wait (time-out handled by the jump guard)
  | .oJoined => !s.wexited                -- parked in Thread.join
  | .enterGate => s.gate.isSome           -- waiting for the gate
  | .tFlip _ => s.gate.isSome
  | _ => false

def quiescent (s : St) : Bool :=
  s.progs.all (fun (_, p) => match p with
    | [] => true
    | op :: _ => blockedOp s op)

def step (s : St) (a : Act) : Option St :=
  match a.lbl with
  | .ev (.idle tm) =>
      -- virtual time jumps only when nothing is runnable, never past the worker's wake-up time
      if quiescent s ∧ s.now ≤ tm ∧ jumpOk s tm then
        some { s with now := tm, jumps := s.jumps ++ [(s.now, tm)] }
      else none
  | l =>
    match getProg s a.tid with
    | [] => (match l with | .ev e => startOp s a.tid e | .tau => none)
    | op :: rest => execOp s a.tid op rest l

def init : St := {}

/-- Internal actions enabled for thread `t` (validator: candidate expansion). -/
def isTauOp : Op → Bool
  | .enterGate | .tAddOnDone _ | .tClock _ _ | .tAppend _ _ | .tRelGate | .tUnlink _ | .tResolve _ | .tCancelCheck _ _
  | .tCancelled _ | .tFlags | .tPartition | .tCancelNext | .tFlip _ => true
  | _ => false

def tauEnabled (s : St) (t : Tid) : Bool :=
  match getProg s t with
  | op :: _ => isTauOp op
  | [] => false

end MoreExec.Timeout
