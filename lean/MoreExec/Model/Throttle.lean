/-
  Model of `ThrottleExecutor` (more_executors/_impl/throttle.py) at the granularity of its lock-protected
  sections, its wake-up event and the boundary with the delegate executor.

  One action = one atomic section of the real code:
    enqueue k      submit():        `with self._lock: self._to_submit.append(job)`
    setE           producer:        `self._event.set()`  (after an enqueue / after a decrement / shutdown)
    evalW r        hand-over thread `self._last_throttle = self._throttle()`  (r = value returned, none = raised)
    readW          hand-over thread `return self._last_throttle`  (the shared attribute, read on a later line)
    evalS r        submitter        `_eval_throttle()`  (same shared `_last_throttle`)
    admitA         hand-over thread the locked `while` loop of `_submit_loop_iter` — this is the REGENERATED kernel
                                    `Gen.K4.admission`, called as is (`admitPart j`: its first j iterations, so that a
                                    decrement can interleave with the loop as it can in the real code)
    handOver k     hand-over thread `self._delegate.submit(job.fn, …)` for the next committed job
    ddone k        delegate         the delegate future of k becomes done (finished or cancelled)
    decr k         callback         `running_count.decr()` in `_delegate_future_done`
    cancelQ k      canceller        `_do_cancel`: remove k from the queue (under the lock)
    waitE / clearE hand-over thread `event.wait(timeout)` / `event.clear()`
  Atomicity assumptions: AT1 `_to_submit` is touched only under `_lock`; AT2 `_running_count` is incremented
  only by the hand-over thread inside that lock and decremented under `AtomicInt.lock`.
-/
import MoreExec.Base.Sys
import MoreExec.Gen.K4

namespace MoreExec.Throttle
open MoreExec.Gen

/-- program counter of the hand-over thread -/
inductive WPc
  | eval      -- about to call the count callable in `_eval_throttle` (and store its value in `_last_throttle`)
  | read      -- about to execute `return self._last_throttle` (a submitter may have stored another value meanwhile)
  | adm     -- about to run the locked admission loop
  | hand      -- handing the committed jobs to the delegate
  | wait      -- about to call `event.wait`
  | parked    -- inside `event.wait`, flag was clear
  | clear     -- about to call `event.clear`
deriving DecidableEq, Repr

structure St where
  queue : List Nat := []            -- `_to_submit` (FIFO, oldest first)
  running : Nat := 0                -- `_running_count.value`
  last : Option Nat := none         -- `_last_throttle`
  wThrottle : Option Nat := none    -- the hand-over thread's local `throttle`
  committed : List Nat := []        -- the hand-over thread's local `to_submit` (popped and counted, not yet handed over)
  flag : Bool := false              -- the wake-up event
  wpc : WPc := .eval
  pendingSet : Nat := 0             -- producers that have mutated state and not yet called `event.set()`
  -- ghosts
  inflight : List Nat := []         -- handed to the delegate, delegate future not done
  undecr : List Nat := []           -- delegate future done, `decr` not yet executed
  handed : List Nat := []           -- log of hand-overs (order of `delegate.submit`)
  enq : List Nat := []              -- log of enqueues
  cancelled : List Nat := []        -- removed from the queue by `cancel()`
  qGauge : Int := 0                 -- the `throttle_queue` gauge
deriving Repr

inductive Act
  | enqueue (k : Nat)
  | setE
  | evalW (r : Option (Option Nat))
  | readW
  | evalS (r : Option (Option Nat))
  | admitPart (j : Nat)
  | admitA
  | handOver (k : Nat)
  | handDone
  | ddone (k : Nat)
  | decr (k : Nat)
  | cancelQ (k : Nat)
  | waitE
  | wake
  | clearE
deriving DecidableEq, Repr

/-- `_eval_throttle`: store the returned value, or keep the last one when the callable raised. -/
def evalThrottle (last : Option Nat) : Option (Option Nat) → Option Nat
  | some v => v
  | none => last

def step (s : St) : Act → Option St
  | .enqueue k =>
      if k ∈ s.enq then none else
      some { s with queue := s.queue ++ [k], enq := s.enq ++ [k], pendingSet := s.pendingSet + 1, qGauge := s.qGauge + 1 }
  | .setE =>
      some { s with flag := true, pendingSet := s.pendingSet - 1 }
  | .evalW r =>
      if s.wpc = .eval then
        some { s with last := evalThrottle s.last r, wpc := .read }
      else none
  | .readW =>
      if s.wpc = .read then some { s with wThrottle := s.last, wpc := .adm } else none
  | .evalS r => some { s with last := evalThrottle s.last r }
  | .admitPart j =>
      -- the first j iterations of the admission loop (none of them stopped); a decrement by a completion callback
      -- may interleave here: `_running_count` is decremented under its own lock, not under `_lock`
      if s.wpc = .adm then
        let r := K4.admission (s.queue.take j) s.running s.wThrottle
        if r.2.1 = [] then
          some { s with committed := s.committed ++ r.1, queue := s.queue.drop j, running := r.2.2.1, qGauge := s.qGauge - r.2.2.2 }
        else none
      else none
  | .admitA =>
      if s.wpc = .adm then
        let r := K4.admission s.queue s.running s.wThrottle
        some { s with committed := s.committed ++ r.1, queue := r.2.1, running := r.2.2.1, wpc := .hand, qGauge := s.qGauge - r.2.2.2 }
      else none
  | .handOver k =>
      match s.wpc, s.committed with
      | .hand, j :: rest =>
          if j = k then some { s with committed := rest, inflight := s.inflight ++ [k], handed := s.handed ++ [k] } else none
      | _, _ => none
  | .handDone =>
      if s.wpc = .hand ∧ s.committed = [] then some { s with wpc := .wait } else none
  | .ddone k =>
      if k ∈ s.inflight then some { s with inflight := s.inflight.erase k, undecr := s.undecr ++ [k] } else none
  | .decr k =>
      if k ∈ s.undecr then
        some { s with undecr := s.undecr.erase k, running := s.running - 1, pendingSet := s.pendingSet + 1 }
      else none
  | .cancelQ k =>
      if k ∈ s.queue then some { s with queue := s.queue.erase k, cancelled := s.cancelled ++ [k], qGauge := s.qGauge - 1 } else none
  | .waitE =>
      if s.wpc = .wait then some { s with wpc := if s.flag then .clear else .parked } else none
  | .wake =>
      -- the flag was set (or the fall-back time-out expired: the model allows both, the theorems need neither)
      if s.wpc = .parked then some { s with wpc := .clear } else none
  | .clearE =>
      if s.wpc = .clear then some { s with flag := false, wpc := .eval } else none

def init (c0 : Option Nat) : St := { last := c0 }

abbrev run := runFrom step

end MoreExec.Throttle
