import MoreExec.Base.Sys
import MoreExec.Model.Timeout
