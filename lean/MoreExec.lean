import MoreExec.Base.Sys
import MoreExec.Model.Timeout
import MoreExec.Props.C09
import MoreExec.Props.C14
import MoreExec.Props.C15
import MoreExec.Props.C13
import MoreExec.Props.C16
import MoreExec.Props.C17
