import MoreExec.Props.C03
import MoreExec.Props.C05
#print axioms MoreExec.WakeProto.C03_sleep_invariant
#print axioms MoreExec.WakeProto.C03_no_overshoot
#print axioms MoreExec.Retry.C03_retry_no_lost_future
#print axioms MoreExec.Retry.C03_retry_no_lost_future_quiescent
#print axioms MoreExec.Retry.C03_mark_pays
#print axioms MoreExec.MapFut.C03_cancelled_delegate_ends
#print axioms MoreExec.Throttle.C07_no_idle_capacity
#print axioms MoreExec.Poll.C08_prompt
#print axioms MoreExec.Timeout.C09_sleep_invariant
#print axioms MoreExec.Timeout.C09_at_deadline
#print axioms MoreExec.Shutdown.C11_worker_not_stuck
#print axioms MoreExec.Retry.C05_next_job_spec
