import MoreExec.Props.C04
#print axioms MoreExec.LockOrder.C04_no_lock_cycle
#print axioms MoreExec.LockOrder.C04_no_self_block
#print axioms MoreExec.LockOrder.C04_outer_before_inner
#print axioms MoreExec.LockOrder.C04_source_nesting_ranked
#print axioms MoreExec.LockOrder.C04_user_code_under_lock_sites
