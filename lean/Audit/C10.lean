import MoreExec.Props.C10
import MoreExec.Props.C11
#print axioms MoreExec.CoS.C10_sweep_covers
#print axioms MoreExec.CoS.C10_race_linearises
#print axioms MoreExec.CoS.C10_no_accept_after_flip
#print axioms MoreExec.Shutdown.C11_source_facts
#print axioms MoreExec.CoS.C10_source_facts
