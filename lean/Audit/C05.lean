import MoreExec.Props.C05
import MoreExec.Props.C03
import MoreExec.Props.C06
#print axioms MoreExec.Retry.C05_attempts_sequential
#print axioms MoreExec.Retry.C05_never_early
#print axioms MoreExec.Retry.C05_policy_attempt_number
#print axioms MoreExec.Retry.C05_policy_raises
#print axioms MoreExec.Retry.C05_no_early_resolution
#print axioms MoreExec.Retry.C05_exception_policy_spec
#print axioms MoreExec.Retry.C05_attempts_bounded
#print axioms MoreExec.Retry.C05_next_job_spec
#print axioms MoreExec.Retry.C05_eval_policy_facts
#print axioms MoreExec.Retry.C06_source_protocol
#print axioms MoreExec.WakeProto.C03_sleep_invariant
#print axioms MoreExec.WakeProto.C03_no_overshoot
