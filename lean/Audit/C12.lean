import MoreExec.Props.C12
import MoreExec.Props.C11
import MoreExec.Props.C08
#print axioms MoreExec.Lifecycle.C12_pending_keeps_alive
#print axioms MoreExec.Lifecycle.C12_worker_not_stuck
#print axioms MoreExec.Lifecycle.C12_worker_exits
#print axioms MoreExec.Lifecycle.C12_collected_not_in_iteration
#print axioms MoreExec.Lifecycle.C12_source_facts
#print axioms MoreExec.Shutdown.C11_join_means_exited
#print axioms MoreExec.Poll.C08_source_facts
