import MoreExec.Props.C13
import MoreExec.Props.C13Code
#print axioms MoreExec.MapFut.C13_spec
#print axioms MoreExec.MapFut.C13_calls
#print axioms MoreExec.MapFut.C13_identity
#print axioms MoreExec.MapFut.C13_compose
#print axioms MoreExec.MapFut.C13_reraise_same
#print axioms MoreExec.MapFut.C13_flat_nonfuture
#print axioms MoreExec.MapFut.C13_code_is_model
#print axioms MoreExec.MapFut.C13_code_meets_spec
#print axioms MoreExec.MapFut.C13_code_calls
