import MoreExec.Props.C13
#print axioms MoreExec.MapFut.C13_spec
#print axioms MoreExec.MapFut.C13_calls
#print axioms MoreExec.MapFut.C13_identity
#print axioms MoreExec.MapFut.C13_compose
#print axioms MoreExec.MapFut.C13_reraise_same
#print axioms MoreExec.MapFut.C13_flat_nonfuture
