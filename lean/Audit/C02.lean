import MoreExec.Props.C02
import MoreExec.Props.C02Code
#print axioms MoreExec.MeFuture.C02_callback_exactly_once
#print axioms MoreExec.MeFuture.C02_outcome_stable
#print axioms MoreExec.MeFuture.C02_cancel_true_sticks
#print axioms MoreExec.MeFuture.C02_cancel_false_when_finished
#print axioms MoreExec.MeFuture.C02_waiters_released
#print axioms MoreExec.MeFuture.C02_cancel_sections_under_lock
#print axioms MoreExec.MeFuture.C02_code_add
#print axioms MoreExec.MeFuture.C02_code_cancel
#print axioms MoreExec.MeFuture.C02_code_set
#print axioms MoreExec.MeFuture.C02_code_poll_set
#print axioms MoreExec.MeFuture.C02_code_delegate_cancelled
#print axioms MoreExec.MeFuture.C02_code_callback_pass
#print axioms MoreExec.MeFuture.C02_code_cancel_whole
#print axioms MoreExec.MeFuture.C02_code_set_whole
#print axioms MoreExec.MeFuture.C02_code_add_whole
#print axioms MoreExec.MeFuture.C02_code_no_overrides
