import MoreExec.Props.C02
#print axioms MoreExec.MeFuture.C02_callback_exactly_once
#print axioms MoreExec.MeFuture.C02_outcome_stable
#print axioms MoreExec.MeFuture.C02_cancel_true_sticks
#print axioms MoreExec.MeFuture.C02_cancel_false_when_finished
#print axioms MoreExec.MeFuture.C02_waiters_released
#print axioms MoreExec.MeFuture.C02_cancel_sections_under_lock
