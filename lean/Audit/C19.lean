import MoreExec.Props.C19
#print axioms MoreExec.Bind.C19_wiring
#print axioms MoreExec.Bind.C19_bind_commutes
#print axioms MoreExec.Bind.C19_bind_commutes_shape
#print axioms MoreExec.Bind.C19_flat_bind
#print axioms MoreExec.Bind.C19_name_inherited
