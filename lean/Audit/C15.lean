import MoreExec.Props.C15
#print axioms MoreExec.Zipper.C15_positions
#print axioms MoreExec.Zipper.C15_first_failure_exception
#print axioms MoreExec.Zipper.C15_first_failure_cancelled
#print axioms MoreExec.Zipper.C15_success_step
#print axioms MoreExec.Zipper.C15_traverse_calls
#print axioms MoreExec.Zipper.C15_source_facts
