import MoreExec.Props.C09
#print axioms MoreExec.Timeout.C09_never_early
#print axioms MoreExec.Timeout.C09_exactly_once
#print axioms MoreExec.Timeout.C09_at_deadline
#print axioms MoreExec.Timeout.C09_sleep_invariant
#print axioms MoreExec.Timeout.C09_outcome_kept
#print axioms MoreExec.Timeout.C09_overdue_not_done
#print axioms MoreExec.Timeout.K3_partition_spec
#print axioms MoreExec.Timeout.K3_overdue_strict
#print axioms MoreExec.Timeout.K3_model_agrees
