import MoreExec.Props.C11
#print axioms MoreExec.Shutdown.C11_refuses_after
#print axioms MoreExec.Shutdown.C11_propagates_once
#print axioms MoreExec.Shutdown.C11_second_call_is_noop
#print axioms MoreExec.Shutdown.C11_join_means_exited
#print axioms MoreExec.Shutdown.C11_worker_not_stuck
#print axioms MoreExec.Shutdown.C11_worker_exits
#print axioms MoreExec.Shutdown.C11_not_stuck_stable
#print axioms MoreExec.Shutdown.C11_chain
#print axioms MoreExec.Shutdown.C11_source_facts
