import MoreExec.Props.C06
#print axioms MoreExec.Retry.C06_source_protocol
#print axioms MoreExec.Retry.C06_retry_stops
#print axioms MoreExec.Retry.C06_terminal_is_forever
#print axioms MoreExec.Retry.C06_no_submit_when_done
#print axioms MoreExec.Retry.C06_forwards_to_delegate
#print axioms MoreExec.Throttle.C06_cancelled_queued_never_handed
#print axioms MoreExec.BoolOp.C14_output_cancel_fans_out
#print axioms MoreExec.MapFut.C06_map_cancel_forwards_or_refuses
