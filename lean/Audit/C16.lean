import MoreExec.Props.C16
#print axioms MoreExec.Apply.C16_argument_order
#print axioms MoreExec.Apply.C16_called_iff_all_ok
#print axioms MoreExec.Apply.C16_failure_from_input
#print axioms MoreExec.Apply.callClo_build
#print axioms MoreExec.Apply.wrapped_all_ok
#print axioms MoreExec.Apply.C16_source_facts
