import MoreExec.Props.C20
#print axioms MoreExec.Metrics.C20_gauge_retry_queue
#print axioms MoreExec.Metrics.C20_gauge_throttle_queue
#print axioms MoreExec.Metrics.C20_gauge_exec_inprogress
#print axioms MoreExec.Metrics.C20_gauge_future_inprogress
#print axioms MoreExec.Metrics.C20_source_facts
