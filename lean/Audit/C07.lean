import MoreExec.Props.C07
#print axioms MoreExec.Throttle.C07_bound_at_handover
#print axioms MoreExec.Throttle.C07_inflight_le_counter
#print axioms MoreExec.Throttle.C07_bound_static
#print axioms MoreExec.Throttle.C07_fifo
#print axioms MoreExec.Throttle.C07_no_idle_capacity
#print axioms MoreExec.Throttle.C07_count_fallback
#print axioms MoreExec.Throttle.C07_blocking_guard_facts
#print axioms MoreExec.Throttle.C07_block_test_spec
#print axioms MoreExec.Throttle.C07_admission_notifies_iff_popped
#print axioms MoreExec.Throttle.C07_admission_is_block_pop
#print axioms MoreExec.BlockProto.C07_blocked_only_while_full
#print axioms MoreExec.BlockProto.C07_room_wakes_all
#print axioms MoreExec.BlockProto.C07_shutdown_releases_blocked
#print axioms MoreExec.Throttle.C07_admission_kernel
