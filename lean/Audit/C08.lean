import MoreExec.Props.C08
#print axioms MoreExec.Poll.C08_descriptor_set_exact
#print axioms MoreExec.Poll.C08_single_poll
#print axioms MoreExec.Poll.C08_first_yield_wins
#print axioms MoreExec.Poll.C08_outcome_unique
#print axioms MoreExec.Poll.C08_raise_fails_shown
#print axioms MoreExec.Poll.C08_raise_step
#print axioms MoreExec.Poll.C08_prompt
#print axioms MoreExec.Poll.C08_cancel_fn_argument
#print axioms MoreExec.Poll.C08_cancel_fn_veto
#print axioms MoreExec.Poll.C08_source_facts
