import MoreExec.Props.C17
import MoreExec.Props.C17NoCancel
#print axioms MoreExec.Proxy.C17_transparent
#print axioms MoreExec.Proxy.C17_direct_dunder_agrees_iff
#print axioms MoreExec.Proxy.C17_direct_dunder_not_transparent
#print axioms MoreExec.Proxy.C17_direct_trunc_not_transparent
#print axioms MoreExec.Proxy.C17_table_all_transparent
#print axioms MoreExec.Proxy.C17_nonblocking
#print axioms MoreExec.Proxy.C17_nocancel
#print axioms MoreExec.NoCancel.C17_nocancel_source_facts
#print axioms MoreExec.NoCancel.C17_nocancel_returns_false
#print axioms MoreExec.NoCancel.C17_nocancel_shields
#print axioms MoreExec.NoCancel.C17_nocancel_mirrors
#print axioms MoreExec.NoCancel.C17_nocancel_resolve_mirrors
#print axioms MoreExec.NoCancel.C17_nocancel_code_mirrors
