import MoreExec.Props.C17
#print axioms MoreExec.Proxy.C17_transparent
#print axioms MoreExec.Proxy.C17_direct_dunder_agrees_iff
#print axioms MoreExec.Proxy.C17_direct_dunder_not_transparent
#print axioms MoreExec.Proxy.C17_direct_trunc_not_transparent
#print axioms MoreExec.Proxy.C17_table_all_transparent
#print axioms MoreExec.Proxy.C17_nonblocking
#print axioms MoreExec.Proxy.C17_nocancel
