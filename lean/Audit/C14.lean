import MoreExec.Props.C14
#print axioms MoreExec.BoolOp.C14_or_fold
#print axioms MoreExec.BoolOp.C14_and_fold
#print axioms MoreExec.BoolOp.C14_losers_cancelled
#print axioms MoreExec.BoolOp.C14_decided_once
#print axioms MoreExec.BoolOp.C14_output_cancel_fans_out
#print axioms MoreExec.BoolOp.C14_step_closed_form
#print axioms MoreExec.BoolOp.C14_repeated_inputs
#print axioms MoreExec.BoolOp.C14_source_facts
