import MoreExec.Props.C18
#print axioms MoreExec.Faults.C18_every_site_guarded
#print axioms MoreExec.Faults.C18_policy_fault_is_local
#print axioms MoreExec.Faults.C18_poll_fault_spares_others
#print axioms MoreExec.Faults.C18_poll_thread_survives
#print axioms MoreExec.Faults.C18_count_fault
#print axioms MoreExec.Faults.C18_map_fn_fault
#print axioms MoreExec.Faults.C18_callback_fault
#print axioms MoreExec.Retry.C05_policy_raises
#print axioms MoreExec.Poll.C08_raise_fails_shown
#print axioms MoreExec.Throttle.C07_count_fallback
