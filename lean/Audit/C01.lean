import MoreExec.Props.C01
#print axioms MoreExec.Stack.C01_exception_is_own
#print axioms MoreExec.Stack.C01_invoked
#print axioms MoreExec.Stack.C01_exactly_once_without_retry
#print axioms MoreExec.Stack.C01_transparent_layers
#print axioms MoreExec.Stack.C01_retry_delivers_declined_attempt
#print axioms MoreExec.Stack.C01_retry_continues
#print axioms MoreExec.Stack.eval_good
#print axioms MoreExec.Retry.shouldRetry_spec
