#!/venv/bin/python
"""Regenerates MANIFEST.json from harness/registry.py (single source of truth for which
properties are claimed).  Run: /venv/bin/python tools_manifest.py"""
import json, os, sys
sys.path.insert(0, os.path.join(os.path.dirname(os.path.abspath(__file__)), "harness"))
from registry import PROPS, NOT_APPLICABLE, COMMON_NOTE  # noqa: E402

BASELINE = ("cd /repo && MORE_EXECUTORS_VERIF=0 /venv/bin/python -m pytest -ra -q -p no:cacheprovider "
            "--timeout=900 --continue-on-collection-errors")

def main():
    checks = []
    for pid in sorted(PROPS):
        p = PROPS[pid]
        checks.append({
            "property_id": pid,
            "quick_cmd": "./check %s --tier quick" % pid,
            "thorough_cmd": "./check %s --tier thorough" % pid,
            "evidence_file": "evidence/%s.json" % pid,
            "replay_cmd_template": "./check %s --replay {path}" % pid,
            "engine": "lean4-proof+correspondence",
            "level_claimed": {"category": "proof", "text": p["level_text"], "design_ref": p["design_ref"]},
            "level_note": p["level_note"] + " " + COMMON_NOTE,
            "technique": p["technique"],
        })
    man = {
        "version": 1,
        "setup_cmd": "./check --setup",
        "hooks": {
            "guard": "MORE_EXECUTORS_VERIF",
            "enable": "no source hooks: all instrumentation is applied from outside (name rebinding / method wrapping) by harness/dsched",
            "baseline_off_cmd": BASELINE,
            "source_commits": [],
            "add_only": True,
        },
        "engines": [{
            "name": "lean4-proof+correspondence", "path": "check",
            "serves_properties": sorted(PROPS),
            "kind_free_text": "Lean 4 theorems over executable models (lean/), kernels regenerated from /repo by harness/pygen, "
                              "hand models tied to the real code by replay correspondence under a deterministic scheduler (harness/dsched)",
        }],
        "checks": checks,
        "not_applicable": [{"property_id": k, "reason": v} for k, v in sorted(NOT_APPLICABLE.items())],
        "notes": "See DESIGN.md. Exit codes: 0 held, 1 VIOLATION, 2 internal error/time-out of the machinery.",
    }
    with open(os.path.join(os.path.dirname(os.path.abspath(__file__)), "MANIFEST.json"), "w") as f:
        json.dump(man, f, indent=1)
        f.write("\n")

if __name__ == "__main__":
    main()
